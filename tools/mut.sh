#!/bin/sh
# usage: mut.sh <file-relative-to-repo> <sed-expression> <govc args...>
# Copies /repo (without .git) to a scratch dir, applies the sed expression to one file, runs govc against the copy, removes it.
set -e
D=$(mktemp -d /tmp/govc-mut-XXXXXX)
trap 'rm -rf "$D"' EXIT
rsync -a --exclude .git /repo/ "$D/"
f="$1"; shift; e="$1"; shift
cp "$D/$f" "$D/$f.orig"
sed -i -E "$e" "$D/$f"
if cmp -s "$D/$f" "$D/$f.orig"; then echo "MUTATION DID NOT APPLY"; exit 3; fi
diff "$D/$f.orig" "$D/$f" | head -10 || true
rm "$D/$f.orig"
(cd "$D" && go build ./... ) || { echo "MUTANT DOES NOT BUILD"; exit 3; }
GOVC_REPO="$D" /verif/bin/govc "$@" | grep -v '^ok ' || true
