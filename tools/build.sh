#!/bin/sh
# rebuilds bin/govc (vendored, offline)
cd /verif/govc && GOFLAGS=-mod=vendor GOPROXY=off GOSUMDB=off GOTOOLCHAIN=local go build -o ../bin/govc .
