#!/bin/sh
# Applies every seeded change (/verif/seeded/<id>/patch.diff) to a scratch copy of /repo's working tree and runs the
# property's check against the copy. usage: tools/seedtest.sh [id-substring]    (prints CAUGHT / MISSED per seed;
# SEEDTEST_JOBS=n at a time, default 4)
cd /verif || exit 2
one() {
  d="$1"
  id=$(basename "$d")
  prop=$(python3 -c "import json,sys; print(json.load(open('$d/meta.json'))['property'])")
  D=$(mktemp -d /tmp/govc-seed-XXXXXX)
  rsync -a --exclude .git /repo/ "$D/repo/"
  mkdir -p "$D/verif/contracts"; cp -r contracts/trusted "$D/verif/contracts/"; cp known_findings.json "$D/verif/"; cp -r bounded "$D/verif/" 2>/dev/null
  if ! (cd "$D/repo" && patch -p1 -s < "/verif/$d/patch.diff"); then echo "SEED $id: patch does not apply to the current tree"; rm -rf "$D"; return 1; fi
  if ! (cd "$D/repo" && go build ./... 2>/dev/null); then echo "SEED $id: does not build"; rm -rf "$D"; return 1; fi
  out=$(GOVC_REPO="$D/repo" GOVC_VERIF="$D/verif" bin/govc check -prop "$prop" 2>&1)
  v=$(echo "$out" | grep "^VIOLATION property=$prop " | sed 's/.*obligation=\([^ ]*\).*/\1/' | tr '\n' ' ')
  rm -rf "$D"
  gap=$(python3 -c "import json; print(json.load(open('$d/meta.json')).get('expected',''))")
  if [ -n "$v" ]; then echo "SEED $id ($prop): CAUGHT by $v"; return 0; fi
  if [ "$gap" = "missed" ]; then echo "SEED $id ($prop): NOT-CAUGHT (recorded gap, see DESIGN.md 0.6)"; return 0; fi
  echo "SEED $id ($prop): MISSED"; return 1
}
if [ "$1" = "--one" ]; then one "$2"; exit $?; fi
list=$(for d in seeded/*/; do id=$(basename "$d"); case "$id" in *"$1"*) echo "seeded/$id";; esac; done)
out=$(echo "$list" | xargs -P "${SEEDTEST_JOBS:-4}" -n 1 sh tools/seedtest.sh --one)
echo "$out" | sort
bad=$(echo "$out" | grep -c " MISSED\|does not")
[ "$bad" -eq 0 ]
