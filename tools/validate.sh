#!/bin/sh
# validates MANIFEST.json and every evidence file against the schemas
python3-vt - <<'PY'
import json,jsonschema,glob
jsonschema.validate(json.load(open('/verif/MANIFEST.json')), json.load(open('/root/.vp/MANIFEST.schema.json')))
print('manifest ok')
for f in sorted(glob.glob('/verif/evidence/*.json')):
    jsonschema.validate(json.load(open(f)), json.load(open('/root/.vp/EVIDENCE.schema.json')))
    print('ok', f)
PY
