#!/bin/sh
# Must-fail corpus: every selftest/mutants/<name>.patch is applied to a scratch copy of /repo's working tree;
# the check named in <name>.expect ("<property> <obligation-substring>") must report a VIOLATION naming it.
# usage: tools/selftest.sh [name-substring]      exit 0 iff every mutant is caught   (SELFTEST_JOBS=n at a time, default 4)
cd /verif || exit 2
one() {
  p="$1"
  name=$(basename "$p" .patch)
  exp="selftest/mutants/$name.expect"
  prop=$(cut -d' ' -f1 "$exp"); want=$(cut -d' ' -f2- "$exp")
  D=$(mktemp -d /tmp/govc-self-XXXXXX)
  rsync -a --exclude .git /repo/ "$D/repo/"
  mkdir -p "$D/verif/contracts"; cp -r contracts/trusted "$D/verif/contracts/"; cp known_findings.json "$D/verif/"; cp -r bounded "$D/verif/" 2>/dev/null
  if ! (cd "$D/repo" && patch -p1 -s < "/verif/$p"); then echo "SELFTEST $name: patch does not apply"; rm -rf "$D"; return 1; fi
  if ! (cd "$D/repo" && go build ./... 2>/dev/null); then echo "SELFTEST $name: mutant does not build"; rm -rf "$D"; return 1; fi
  out=$(GOVC_REPO="$D/repo" GOVC_VERIF="$D/verif" bin/govc check -prop "$prop" 2>&1)
  rc=0
  if echo "$out" | grep "^VIOLATION property=$prop " | grep -q -- "$want"; then
    echo "SELFTEST $name: caught ($prop $want)"
  else
    echo "SELFTEST $name: MISSED ($prop $want)"; echo "$out" | tail -5; rc=1
  fi
  rm -rf "$D"
  return $rc
}
if [ "$1" = "--one" ]; then one "$2"; exit $?; fi
list=$(for p in selftest/mutants/*.patch; do name=$(basename "$p" .patch); case "$name" in *"$1"*) echo "$p";; esac; done)
n=$(echo "$list" | grep -c .)
out=$(echo "$list" | xargs -P "${SELFTEST_JOBS:-4}" -n 1 sh tools/selftest.sh --one)
echo "$out" | sort
bad=$(echo "$out" | grep -c "MISSED\|does not")
echo "selftest: $n mutants, fail=$bad"
[ "$bad" -eq 0 ]
