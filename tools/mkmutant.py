#!/usr/bin/env python3
"""mkmutant.py <name> <repo-relative-file> <prop> <expected-obligation-substring>   (old text and new text on stdin, separated by a line '=====')
Creates selftest/mutants/<name>.patch (+ .expect) from a textual replacement in /repo's working tree."""
import sys, subprocess, tempfile, os
name, rel, prop, expect = sys.argv[1:5]
old, new = sys.stdin.read().split("\n=====\n")
new = new.rstrip("\n") if not new.endswith("\n\n") else new
src = open("/repo/" + rel).read()
if src.count(old.rstrip("\n")) != 1:
    sys.exit("old text occurs %d times" % src.count(old.rstrip("\n")))
mut = src.replace(old.rstrip("\n"), new)
with tempfile.TemporaryDirectory() as d:
    os.makedirs(os.path.join(d, "a", os.path.dirname(rel)), exist_ok=True)
    os.makedirs(os.path.join(d, "b", os.path.dirname(rel)), exist_ok=True)
    open(os.path.join(d, "a", rel), "w").write(src)
    open(os.path.join(d, "b", rel), "w").write(mut)
    p = subprocess.run(["diff", "-u", "a/" + rel, "b/" + rel], cwd=d, capture_output=True, text=True).stdout
open("/verif/selftest/mutants/%s.patch" % name, "w").write(p)
open("/verif/selftest/mutants/%s.expect" % name, "w").write("%s %s\n" % (prop, expect))
print("wrote", name, len(p.splitlines()), "lines")
