#!/usr/bin/env python3
"""Regenerates /verif/MANIFEST.json from the table below (one place to edit)."""
import json, subprocess

TECH = "contract-based deductive verification: weakest-precondition style VCs generated from go/ssa (naive form) of the real functions against //@ contracts, discharged by z3/cvc5"

# property -> (level text, level_note, design_ref)   -- only properties with a working, green check are listed
CLAIMED = {
 "C13": ("Proof obligations generated from the real code of validFrame, validCloseCode, nextFrame, the per-frame critical section of Parse and Parse's dispatch against RFC 6455 predicates: reserved bits/opcodes, fragmented control frames, data frame inside a fragmented message (the fragmentation state equals 'a data message is open' after every data frame, and control frames leave it, the message type and the partial message untouched), opcode set {0,1,2,8,9,10}, close-code set, 64-bit length top bit, control frames > 125, a message is handed on only on FIN, nothing is dispatched after an error; plus zero-annotation panic-freedom of those functions.",
         "Assumed: trusted contracts of encoding/binary, fmt.Errorf; maskXOR's contract (proved separately under C12 when claimed); utf8.Valid; signed arithmetic mathematical in functions not marked ovf. Message-level clauses (UTF-8, close handling, ping/pong replies) are decided only where listed in evidence.",
         "DESIGN.md 4 C13"),
}

CLAIMED["C20"] = ("Every method of the three allocators (MemPool, AlignedAllocator, stdAllocator) and the constructors are verified against one interface contract: Malloc length/capacity, Append/AppendString/Realloc length and both halves of the content (quantified over all positions), memory freshness (the returned backing array is new to the caller, or the old one grown in place), handle typestate, frame (nothing else changes), bucket-capacity invariant of the aligned pools, and panic-freedom (index, slice bounds, nil, type assertion, make).",
  "Assumed: sync.Pool contract (Get returns New() or an element previously Put; to a program that never uses a buffer after Free - property C11 - it is indistinguishable from a new one); the alignedIndexes table and pool capacities established by init() (axioms, init's loops are not verified); AlignedAllocator.AppendString's unsafe cast (trusted); debugger statistics (bodies not verified); object invariants of the allocators are established by the constructors (proved) and assumed at method entry; concurrent use relies on sync.Pool being linearizable.",
  "DESIGN.md 4 C20")

CLAIMED["C01"] = ("The write path of conn_unix.go / sendfile_unix.go is under contract: newToWriteBuf, newToWriteFile, releaseToWrite, overflow, writeStream, doWrite, write, writev, Write, Writev, flush (with its two closures) and Sendfile. Proved for every kernel return (short write, EAGAIN, EINTR, error, sendfile returning 0): a call that returns nil reports the whole input length; accepted bytes == bytes handed to the kernel + bytes queued (stream-position ghosts gHead/gTail chained through the queue entries, checked as a monitor invariant of the connection mutex at every Unlock); nothing is handed to the kernel while a backlog exists (order); the queue tail holds exactly the bytes given (content clause over all positions); flush hands the kernel exactly the unsent part of the head entry and consumes it head first; the mutex is held from the closed check to the last queue update (atomicity of one call); panic-freedom and lock discipline of all these functions.",
  "Assumed: kernel contracts of write/writev/sendfile/dup (result ranges, a successful non-empty write transfers at least one byte), TCP/Unix deliver what the kernel accepted, the allocator interface contract (proved under C20), user callbacks invoked under the mutex do not touch the connection, closeWithErrorWithoutLock (teardown) preserves the closed flag (contract trusted here, see C03), the raw writev syscall wrapper (unsafe) is trusted. The composition 'local tail-append/head-consume contracts imply the peer sees the concatenation' is the telescoping argument over the position ghosts, not a separate Lean lemma. Termination of flush's outer loop under repeated EINTR is not claimed.",
  "DESIGN.md 4 C01")
CLAIMED["C17"] = ("The backlog counter is tied to the true backlog by the queue invariant (left == gBTail - gBHead, where the buffer-byte positions are chained through every queue entry: each entry ends exactly its unsent bytes after its predecessor), preserved by every queue operation (append, coalesce, partial flush, pop, file entries contribute 0). overflow(n) is exactly MaxWriteBufferSize > 0 && left + n > max; write/writev return the overflow error in exactly that case and accept otherwise; left <= max is a monitor invariant of the connection mutex; an empty queue implies left == 0 (full budget back).",
  "Assumed: as C01. Overflow closes the connection through closeWithErrorWithoutLock (contract trusted here). Signed arithmetic treated as mathematical (left + n does not overflow int64).",
  "DESIGN.md 4 C17")

CLAIMED["C04"] = ("The safety core of the liveness claim is a monitor invariant of the connection mutex, proved at every Unlock of Write, Writev, Sendfile, flush, ResetPollerEvent and addConn: a non-empty backlog implies the write flag is set; on a registered descriptor the flag equals 'EPOLLOUT is in the registered mask' (LT and ET+ONESHOT) or EPOLLOUT is always registered (ET). setRead/setReadWrite/modWrite/resetRead are verified against the epoll mask they produce in each mode. Registration: after addConn succeeds the invariant holds for whatever the open callback did. One-shot: every non-closing return of flush that saw a backlog, and every ResetPollerEvent on a live registered connection, has performed a successful EPOLL_CTL_MOD (re-arm). Lock discipline (lockset) of all these functions.",
  "Not decided: 'eventually' itself - that the kernel reports EPOLLOUT for an armed writable descriptor and that the poller loop then calls flush (fairness of epoll and of the loop) is assumed; the poller loop readWriteLoop and AsyncRead are not under contract. Assumed: epoll_ctl contract (ADD of an unregistered / MOD of a registered descriptor succeeds, no ENOMEM), open callbacks reach the connection only through its public methods, addDialer (dial path) not verified.",
  "DESIGN.md 4 C04")

CLAIMED["C03"] = ("Close teardown is tied to a permission (ghost token) that only the critical section flipping the closed flag from false to true produces; every one of the call sites of closeWithErrorWithoutLock (closeWithError, Write, Writev, flush, Sendfile) is proved to hold it, and the teardown consumes it: teardown runs exactly once per connection. deleteConn delivers exactly one close notification per teardown (none for a UDP listener) carrying the connection's first close error; closeWithError is idempotent (an already closed connection: nil, no notification, error unchanged), the first caller's error is the one recorded; closed is monotone (monitor invariant); Write/Writev/Sendfile on a closed connection return net.ErrClosed with the kernel byte counter untouched; all queued buffers are released and the queue dropped by teardown.",
  "Not decided: the asynchronous-dial clause (readWriteLoop, the poller event loop that invokes the dial callback, and DialAsyncTimeout are not under contract; on this tree a refused non-blocking connect reports success first and a timed-out dial never calls back - observed by execution in round 0, described in DESIGN.md as F4, outside the obligations claimed here); open-before-close ordering relies on addConn's program order (onOpen before registration) plus the engine's Async queue (C19); Execute-after-close is C05. Assumed: close/open callbacks reach the connection only through public methods; udpConn.Close (UDP session teardown) trusted; mutual exclusion of sync.Mutex.",
  "DESIGN.md 4 C03")

CLAIMED["C05"] = ("The job list is a monitor of the connection mutex with ghost counters (submitted, taken, batch base, drainer index, drainer-exists). Proved at every Unlock of Execute, MustExecute and of the drainer closure: a drainer exists iff the list is non-empty; only the submitter that makes the list non-empty creates one (hand-over obligation at the executor call: the closure's precondition holds where it is handed over); the drainer's own index equals the protected index in every section (thread-local knowledge tied to the monitor); every job it takes is jobList[next] with submission number == number of jobs taken so far (FIFO, no gap, no repeat: assert 'order' at each take); it retires exactly when it has consumed everything appended so far; index safety of every jobList access; Execute on a closed connection returns false and leaves the list untouched, otherwise appends exactly one entry and returns true; MustExecute always appends exactly one entry.",
  "Assumed: the engine's executor (Engine.Execute, user-replaceable) runs the closure it is given exactly once (the built-in executors are C19's subject); sync.Mutex mutual exclusion; the job itself is user code reaching the connection only through public methods. The panic barrier is structural (the job call is the only statement of a literal whose deferred literal calls recover) and is inlined, not separately proved. 'HTTP handlers and WebSocket callbacks never overlap' follows only for callers that route through Execute (C10/C14).",
  "DESIGN.md 4 C05")

CLAIMED["C15"] = ("Receive side: nextFrame rejects a frame whose declared length on top of the message assembled so far exceeds MessageLengthLimit (7- and 16-bit classes; the 64-bit class under mathematical integers) and control frames above 125 bytes in all length classes; readAll (inflate loop) never returns more than the limit; the per-frame section of Parse keeps 'assembled message <= limit' and 'delivered message <= limit' and delivered control payloads <= 125; Parse's input cache after appending a read is <= ReadLimit or exactly this read; ErrMessageTooLarge / ErrControlMessageTooBig returned by the frame section lead to WriteClose(1009, ...) before Parse returns (ghost flag + argument assert). Send side: WriteMessage refuses control frames above 125 bytes before any frame is written.",
  "Assumed: compress/flate (decompressReader, the io.Reader it returns: 0 <= n <= len(p)), the allocator interface contract (C20), the reader's knowledge of the parser state between critical sections (single reader per connection; thread-local ghosts tied to the monitor), message handlers do not touch the reader's private buffers, WriteClose/writeFrame effects (trusted stubs preserving connection state). Signed arithmetic is mathematical: a declared 64-bit length near 2^63 added to a non-empty partial message wraps in the real code (noted in DESIGN.md).",
  "DESIGN.md 4 C15")

CLAIMED["C19"] = ("timer.Async: the same monitor pattern as C05 on asyncMux/asyncList (one drainer, created only by the submitter that makes the list non-empty, hand-over obligation at the go statement, every function taken is asyncList[taken] with submission number == number taken so far, retire exactly when everything appended has been taken, including the cap > 1024 reallocation branch; index safety). TaskPool: thread-modular counter accounting with a thread-local ghost 'units owed': fork returns with the unit handed to the worker it started or still owed by the caller; Go, the worker and the dispatcher loop return every unit they take (capacity is recovered); a worker is started only by an add whose result is < maxConcurrent (bound); New wires the built-in caller.",
  "Assumed: sync/atomic operations are atomic (their results are arbitrary: other threads interfere); the Go runtime starts each 'go' closure exactly once; channels deliver each sent value at most once; tasks still queued when Stop is called are not decided (schedule dependent); the recover barriers around tasks are structural (inlined), not separately proved; a user-supplied caller runs its argument (trusted).",
  "DESIGN.md 4 C19")

CLAIMED["C16"] = ("The timer state machine of conn_unix.go under the connection mutex: SetDeadline / SetReadDeadline / SetWriteDeadline with a non-zero time leave the direction's timer non-nil and armed, re-using the existing timer (at most one live timer per direction: no second timer is created when one exists; the two directions never share a timer: monitor invariant); with the zero time the timer is stopped and the field dropped; on a closed connection nothing changes; each timer callback closes the connection with the matching timeout error (read/write); Write and Writev stop and drop the write timer when they leave the backlog empty; the first Close stops and drops both timers. A stale timer callback can only reach closeWithError, which C03 proves to be a no-op on a closed connection.",
  "Not decided: timing itself ('fires on time, never early') and the race between a timer that has fired but not yet run and a renewal are properties of the runtime timer under real time (time.AfterFunc/Reset/Stop are trusted: Reset/AfterFunc arm for the given duration, Stop disarms); the durations are whatever time.Until returned. Keep-alive renewal in nbhttp (flushResponse, AddConn*) and websocket (handleWsMessage, Upgrade) is not under contract in this claim. The error-teardown exits of Write/Writev/flush/Sendfile leave the timers armed (harmless by C03).",
  "DESIGN.md 4 C16")

CLAIMED["C09"] = ("The response writer of nbhttp/response.go and its call site in processor.go are under contract: WriteHeader, checkChunked, contentLength, eoncodeHead, formatInt, Write, writeChunk, Flush, flush, ReadFrom, flushResponse. Proved for every branch around the 64 KiB threshold and every connection result: a successful Write reports exactly len(data); conservation in both framings (bytes handed to the connection + bytes still buffered == bytes buffered before + the data + the chunk framing: size line + 4), which is what excludes dropped, duplicated or stale bytes; in the buffered chunk path the buffer holds size line, CR LF, the data (all positions), CR LF at exactly the expected offsets; bodyWritten advances by len(data); the final flush hands over everything buffered (identity framing) or everything buffered plus the 5-byte last chunk (no trailers) and keeps nothing; a chunked response has no Content-Length header; WriteHeader records any code in 100..999 once; ReadFrom sends head and pending body before the reader's bytes; flushResponse closes the connection exactly once when the request asked for it or the flush failed and never touches it for a hijacked response; panic-freedom (nil, index, slice bounds, map writes) of all of them.",
  "Not decided (whole-wire clauses outside a per-function contract): that the concatenation of all writes parses as exactly one HTTP/1.x response in an independent client, header/trailer byte content of the head (eoncodeHead is proved for ownership, frame and safety, not for the text it emits), the hexadecimal value of the size line (its length class 1..8 and memory safety are proved), trailer bytes (only a lower bound on the last write), ReadFrom without a Content-Length (the code sends the reader's bytes unframed: noted in DESIGN.md), framing choice beyond 'chunked excludes Content-Length'. Assumed: net.Conn.Write / io.Writer.Write return len(b) on success (proved for nbio's own Conn under C01), io.Copy and the connection's Sendfile touch only the connection and the reader, net/http.Header methods touch only header maps, the allocator interface contract (C20), a Response is used by one goroutine at a time (C05/C10), the handler's data does not alias the response's pooled buffer.",
  "DESIGN.md 4 C09")

NA = {
 "C18": "termination of Stop/Shutdown and release of goroutines/descriptors for all histories is liveness + whole-process resource state; no contract within reach of a per-function deductive verifier decides it (DESIGN.md 4 C18)",
}

props = [json.loads(l)["id"] for l in open("/verif/properties.jsonl")]
repo_commits = subprocess.run(["git", "-C", "/repo", "log", "--format=%h %s"], capture_output=True, text=True).stdout.splitlines()
hook_commits = [c.split()[0] for c in repo_commits if c.split(" ", 1)[1].startswith("verif:")]

checks = []
for p in props:
    if p in CLAIMED:
        text, note, ref = CLAIMED[p]
        checks.append({
            "property_id": p,
            "quick_cmd": f"./check {p} quick",
            "thorough_cmd": f"./check {p} thorough",
            "evidence_file": f"/verif/evidence/{p}.json",
            "replay_cmd_template": "./check --replay {path}",
            "engine": "govc",
            "level_claimed": {"category": "proof", "text": text, "design_ref": ref},
            "level_note": note,
            "technique": TECH,
        })
na = []
for p in props:
    if p not in CLAIMED:
        na.append({"property_id": p, "reason": NA.get(p, "contracts for this property are not written yet / not discharging within the quick budget (build in progress, DESIGN.md section 6 build order); not claimed rather than left flaky")})

m = {
 "version": 1,
 "setup_cmd": "cd /verif/govc && GOFLAGS=-mod=vendor GOPROXY=off GOSUMDB=off GOTOOLCHAIN=local go build -o ../bin/govc .",
 "hooks": {
  "guard": "verif",
  "enable": "contracts are comment-only files contracts_verif.go behind //go:build verif next to the code in /repo; govc reads them as text from the working tree, nothing is compiled into the library",
  "baseline_off_cmd": "cd /repo && go test -vet=off -count=1 -timeout 25m ./...",
  "source_commits": hook_commits,
  "add_only": True,
 },
 "engines": [{"name": "govc", "path": "/verif/govc", "serves_properties": sorted(CLAIMED),
              "kind_free_text": "self-written verification-condition generator over go/ssa (naive form) of /repo's working tree; contracts in //@ comment files; obligations discharged by z3 4.8.12 / z3-new 5.1.0 / cvc5 1.0 (raced)"}],
 "checks": checks,
 "not_applicable": na,
 "notes": "See DESIGN.md. known_findings.json lists genuine defects (fixed by fix: commits in /repo, or known).",
}
json.dump(m, open("/verif/MANIFEST.json", "w"), indent=1)
print("claimed:", sorted(CLAIMED), "na:", len(na))
