#!/bin/sh
# usage: confirm_seed.sh <seed-id> <seed-dir> <demo-file-dest-relative-to-repo-root> <go test command to run the demo (quoted)>
# Confirms in a fresh scratch worktree that: the demo passes on the unmodified tree, the patch applies and builds, the demo
# fails with the patch, the existing suite passes with the patch. On success copies the seed to /verif/seeded/<id>/.
id="$1"; sd="$2"; dest="$3"; cmd="$4"
export GOFLAGS=-mod=mod GOPROXY=off GOSUMDB=off GOTOOLCHAIN=local
W=/tmp/confirm-$id; rm -rf "$W"; git -C /repo worktree prune
git -C /repo worktree add -q --detach "$W" HEAD || exit 2
trap 'git -C /repo worktree remove --force "$W" 2>/dev/null; rm -rf "$W"' EXIT
demo=$(ls "$sd" | grep -v 'patch.diff\|meta.json' | head -1)
cp "$sd/$demo" "$W/$dest"
log=/tmp/confirm-$id.log; : > $log
echo "== demo on unmodified tree" >> $log
(cd "$W" && sh -c "$cmd") >> $log 2>&1; a=$?
(cd "$W" && git apply "$sd/patch.diff") >> $log 2>&1 || { echo "CONFIRM $id: patch does not apply"; exit 1; }
(cd "$W" && go build ./...) >> $log 2>&1 || { echo "CONFIRM $id: does not build"; exit 1; }
echo "== demo with the change" >> $log
(cd "$W" && sh -c "$cmd") >> $log 2>&1; b=$?
rm -f "$W/$dest"
echo "== suite with the change" >> $log
(cd "$W" && go test -vet=off -count=1 -timeout 15m ./...) >> $log 2>&1; c=$?
echo "CONFIRM $id: demo_without_change_exit=$a demo_with_change_exit=$b suite_with_change_exit=$c"
if [ $a -eq 0 ] && [ $b -ne 0 ] && [ $c -eq 0 ]; then
  mkdir -p /verif/seeded/$id; cp "$sd/patch.diff" "$sd/$demo" "$sd/meta.json" /verif/seeded/$id/ 2>/dev/null
  echo "CONFIRM $id: OK, kept in /verif/seeded/$id"
else
  echo "CONFIRM $id: NOT confirmed (see $log)"
fi
