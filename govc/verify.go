package main

import (
	"go/token"
	"fmt"
	"os"
	"runtime/debug"
	"path/filepath"
	"go/types"
	"sort"
	"strings"
	"sync"
	"time"

	"golang.org/x/tools/go/ssa"
)

type FuncResult struct {
	Key      string
	Obls     []*Obligation
	Warns    map[string]int
	Trusted  []string
	Fatal    string
	ArithMath bool
	GenSecs  float64
}

func newRun(prog *Program, specs *Specs, fn *ssa.Function, spec *FuncSpec) *Run {
	r := &Run{prog: prog, specs: specs, ctx: newCtx(), fn: fn, spec: spec, warns: map[string]int{},
		trusted: map[string]bool{}, typeTags: globalTypeTags, strLits: map[string]int{}, compSorts: map[string]string{}}
	r.regComp("$top", SInt)
	return r
}

// type tags are global so that error values keep their identity across functions of one run
var globalTypeTags = map[string]int{}
var typeTagMu sync.Mutex

func verifyFunction(prog *Program, specs *Specs, key string) (res *FuncResult) {
	start := time.Now()
	res = &FuncResult{Key: key}
	fn := prog.Funcs[key]
	spec := specs.Funcs[key]
	if fn == nil {
		res.Fatal = "anchor does not resolve: no function " + key
		return
	}
	if len(fn.Blocks) == 0 {
		res.Fatal = "function has no body: " + key
		return
	}
	defer func() {
		if x := recover(); x != nil {
			res.Fatal = fmt.Sprintf("engine panic in %s: %v", key, x)
			if os.Getenv("GOVC_TRACE") != "" {
				res.Fatal += "\n" + string(debug.Stack())
			}
		}
	}()
	r := newRun(prog, specs, fn, spec)
	typeTagMu.Lock()
	defer typeTagMu.Unlock()
	r.verifyTop()
	if r.fatal == "" && !r.discover && r.spec != nil {
		for _, name := range r.spec.Barriers {
			// structural obligation: a panic of the user function must abort nothing but its own call
			bad := barrierViolations(fn, name)
			goal := tTrue
			text := "every call of " + name + " is the body of a function literal without loops whose deferred literal calls recover() (a panicking " + name + " aborts only its own call)"
			if len(bad) > 0 {
				goal = tFalse
				text += " - not so at " + strings.Join(bad, ", ")
			}
			props := r.spec.BarrierProps
			if len(props) == 0 {
				props = r.spec.Props
			}
			o := &Obligation{Name: funcKey(fn) + "/barrier#" + name, Kind: "carried", Func: funcKey(fn), Props: props,
				Pos: r.posString(fn.Pos()), Text: text, mark: r.ctx.Mark(), goal: goal, ctx: r.ctx}
			r.obls = append(r.obls, o)
		}
	}
	if r.fatal == "" && !r.discover {
		for _, uf := range r.unfiredAnchors() {
			// the contract speaks about a program point (a lock, a call, a go statement) that the code no longer has:
			// an obligation that cannot be discharged, reported like any other
			a := uf[strings.LastIndex(uf, " ")+1:]
			o := &Obligation{Name: funcKey(fn) + "/anchor@" + a, Kind: "assert", Func: funcKey(fn), Props: r.spec.Props,
				Pos: r.posString(fn.Pos()), Text: "the contract's anchor " + a + " matches a program point of the function",
				mark: r.ctx.Mark(), goal: tFalse, ctx: r.ctx}
			r.obls = append(r.obls, o)
		}
	}
	for _, o := range r.obls {
		// branch conditions that are defined in the obligation's prefix
		for i, c := range r.conds {
			if r.condMark[i] <= o.mark {
				o.splitConds = append(o.splitConds, c)
				o.splitPos = append(o.splitPos, r.condPos[i])
				o.splitReach = append(o.splitReach, r.condReach[i])
			}
		}
		if t, ok := r.knownExcl[o.Name]; ok {
			tt := t
			o.exclTerm = &tt
		}
	}
	res.Obls = r.obls
	res.Warns = r.warns
	for k := range r.trusted {
		res.Trusted = append(res.Trusted, k)
	}
	sort.Strings(res.Trusted)
	res.Fatal = r.fatal
	res.ArithMath = r.arithAssumed
	res.GenSecs = time.Since(start).Seconds()
	return
}

func (r *Run) verifyTop() {
	fn := r.fn
	fr := r.newFrame(fn, nil)
	r.top = fr
	fr.spec = r.spec
	st := &State{cells: map[cellKey]Val{}, heap: map[string]Term{}, ep: r.newEpoch()}
	top0 := r.heapGet(st, "$top")
	r.ctx.Assert(Ge(top0, mkInt(0)))
	penv := &Env{r: r, vars: map[string]Val{}, oldVars: map[string]Val{}, st: st, old: st}
	if fn.Pkg != nil {
		penv.pkg = fn.Pkg.Pkg
		penv.specPkg = shortPkg(fn.Pkg.Pkg.Path())
	} else {
		be := r.baseEnv(fr, st)
		penv.pkg, penv.specPkg = be.pkg, be.specPkg
	}
	for i, p := range fn.Params {
		v := r.freshTyped("p."+p.Name(), p.Type(), st)
		fr.regs[p] = v
		fr.params = append(fr.params, v)
		penv.vars[p.Name()] = v
		penv.oldVars[p.Name()] = v
		if i == 0 && fn.Signature.Recv() != nil {
			if _, ok := p.Type().Underlying().(*types.Pointer); ok && v.Kind == VTerm {
				r.ctx.Assert(Not(Eq(v.T, mkInt(0))))
				r.trusted["method receivers are non-nil"] = true
			}
		}
	}
	for _, fv := range fn.FreeVars {
		v := r.freshTyped("fv."+fv.Name(), fv.Type(), st)
		if v.Kind == VTerm {
			r.ctx.Assert(Not(Eq(v.T, mkInt(0))))
		}
		fr.free[fv] = v
		if pt, ok := fv.Type().Underlying().(*types.Pointer); ok && v.Kind == VTerm {
			switch pt.Elem().Underlying().(type) {
			case *types.Struct, *types.Array:
			default:
				bc, _ := r.boxComp(pt.Elem())
				r.localBoxes = append(r.localBoxes, localBox{bc, v.T})
			}
		}
	}
	// captured variables are distinct variables of the enclosing function: their boxes are pairwise different
	{
		var ptrs []Term
		for _, fv := range fn.FreeVars {
			if v := fr.free[fv]; v.Kind == VTerm {
				ptrs = append(ptrs, v.T)
			}
		}
		if len(ptrs) > 1 {
			var b strings.Builder
			b.WriteString("(distinct")
			for _, p := range ptrs {
				b.WriteByte(' ')
				b.WriteString(p.S)
			}
			b.WriteString(")")
			r.ctx.Assert(Term{b.String(), SBool})
		}
	}
	// the storage of a captured local is not a buffer handle handed out by an allocator
	if srt, ok := r.specs.Ghosts["liveP"]; ok {
		r.regComp("ghost.liveP", srt)
		lp := r.heapGet(st, "ghost.liveP")
		for _, fv := range fn.FreeVars {
			if v := fr.free[fv]; v.Kind == VTerm {
				r.ctx.Assert(Not(Select(lp, v.T)))
			}
		}
		if len(fn.FreeVars) > 0 {
			r.trusted["captured local variables of the enclosing function are not allocator handles (their boxes differ from every live buffer handle)"] = true
		}
	}
	// captured variables are visible to contracts by name: entry value in requires and old(), final value in ensures
	for _, fv := range fn.FreeVars {
		if l := r.derefLoc(fr.free[fv]); l != nil {
			if _, clash := penv.vars[fv.Name()]; !clash {
				x := r.loadTyped(st, l)
				penv.vars[fv.Name()] = x
				penv.oldVars[fv.Name()] = x
			}
		}
	}
	fr.entry = st.clone()
	r.ctx.DeclareOnce("top.entry", "(declare-const top.entry Int)")
	r.ctx.Assert(Eq(Term{"top.entry", SInt}, r.heapGet(st, "$top")))
	if r.spec != nil && r.spec.Implements != "" {
		isp := r.specs.Funcs["iface:"+r.spec.Implements]
		if isp == nil {
			r.fatal = "no interface contract " + r.spec.Implements
			return
		}
		names := r.ifaceParamNames(isp, r.spec.Implements)
		if len(names)+1 != len(fr.params) {
			r.fatal = fmt.Sprintf("%s implements %s: arity mismatch", funcKey(fn), r.spec.Implements)
			return
		}
		bind := func(n string, v Val) {
			if old, ok := penv.vars[n]; ok && !sameVal(old, v) {
				r.fatal = fmt.Sprintf("%s implements %s: parameter name %q clashes", funcKey(fn), r.spec.Implements, n)
				return
			}
			penv.vars[n] = v
			penv.oldVars[n] = v
		}
		bind("self", fr.params[0])
		for i, n := range names {
			bind(n, fr.params[i+1])
		}
		if r.fatal != "" {
			return
		}
		r.ifaceSpec = isp
		r.ifaceAssigns = isp.Assigns
		for i, c := range isp.Requires {
			g := penv.evalBool(c.E)
			if penv.err != nil {
				r.fatal = fmt.Sprintf("%s (implements) requires %d: %v", funcKey(fn), i+1, penv.err)
				return
			}
			r.ctx.Assert(g)
		}
	}
	for _, k := range activeKnown {
		if k.excl != nil && strings.HasPrefix(k.Obligation, funcKey(fn)+"/") {
			t := penv.evalBool(k.excl)
			if penv.err != nil {
				r.fatal = fmt.Sprintf("known finding %s: excluded predicate: %v", k.Obligation, penv.err)
				return
			}
			if r.knownExcl == nil {
				r.knownExcl = map[string]Term{}
			}
			r.knownExcl[k.Obligation] = t
		}
	}
	// preconditions
	if r.spec != nil {
		for i, c := range r.spec.Requires {
			if c.Label == "handover" && fn.Parent() != nil {
				// a fact about shared state at the moment a literal is handed to another thread: an obligation of the
				// thread that hands it over, not something the literal may assume when it eventually runs
				continue
			}
			g := penv.evalBool(c.E)
			if penv.err != nil {
				r.fatal = fmt.Sprintf("%s requires %d: %v", funcKey(fn), i+1, penv.err)
				return
			}
			r.ctx.Assert(g)
		}
		for _, c := range r.specs.Axioms {
			visible := c.Pkg == penv.specPkg
			for _, u := range r.spec.Uses {
				if u == c.Pkg+"."+c.Label || u == c.Pkg+".*" {
					visible = true
				}
			}
			if !visible {
				continue
			}
			aenv := *penv
			aenv.vars = map[string]Val{}
			aenv.oldVars = map[string]Val{}
			if p := r.pkgByShort(c.Pkg); p != nil {
				aenv.pkg = p
				aenv.specPkg = c.Pkg
			}
			g := aenv.evalBool(c.E)
			if aenv.err != nil {
				r.fatal = fmt.Sprintf("axiom %q: %v", c.Text, aenv.err)
				return
			}
			r.ctx.Assert(g)
			r.trusted["axiom: "+c.Text] = true
		}
		// vacuity: the precondition must be satisfiable
		if len(r.spec.Requires) > 0 {
			o := &Obligation{Name: funcKey(fn) + "/cover#requires", Kind: "cover", Func: funcKey(fn), Props: r.spec.Props,
				mark: r.ctx.Mark(), goal: tFalse, ctx: r.ctx, Cover: true, Text: "requires is satisfiable"}
			r.obls = append(r.obls, o)
		}
		r.ghostAt(fr, st, tTrue, "entry", nil, penv.vars)
	}
	{
		pm := map[string]Term{}
		for k, v := range penv.vars {
			if v.Kind == VTerm {
				pm[k] = v.T
			}
		}
		r.topReplay = &replayInfo{fn: fn, params: pm, specPkg: penv.specPkg}
	}
	entryHeld := map[string]Term{}
	_ = entryHeld
	r.execFrame(fr, st, tTrue)
	if r.fatal != "" {
		return
	}
	if len(fr.rets) == 0 {
		return
	}
	var conds []Term
	var sts []*State
	for _, rp := range fr.rets {
		conds = append(conds, rp.reach)
		sts = append(sts, rp.st)
	}
	final := r.mergeStates(conds, sts)
	reach := r.ctx.Define("Rreturn", Or(conds...))
	nres := fn.Signature.Results().Len()
	var results []Val
	for i := 0; i < nres; i++ {
		var vals []Val
		for _, rp := range fr.rets {
			vals = append(vals, rp.vals[i])
		}
		results = append(results, r.mergeVals(conds, vals, fmt.Sprintf("result%d", i)))
	}
	if r.spec == nil {
		return
	}
	env := &Env{r: r, vars: map[string]Val{}, oldVars: penv.vars, st: final, old: fr.entry, pkg: penv.pkg, specPkg: penv.specPkg}
	for k, v := range penv.vars {
		env.vars[k] = v
	}
	rn := resultNames(fn.Signature, nil)
	for i, n := range rn {
		env.vars[n] = results[i]
		env.vars[fmt.Sprintf("result%d", i)] = results[i]
	}
	if nres == 1 {
		env.vars["result"] = results[0]
	}
	{
		// ghost code at return sees the parameters' entry values and the results
		rv := map[string]Val{}
		for k, v := range env.vars {
			rv[k] = v
		}
		r.ghostAt(fr, final, reach, "return", nil, rv)
		if r.fatal != "" {
			return
		}
	}
	// captured variables by name (closures verified on their own)
	for _, fv := range fn.FreeVars {
		if l := r.derefLoc(fr.free[fv]); l != nil {
			isParam := false
			for _, p := range fn.Params {
				if p.Name() == fv.Name() {
					isParam = true
				}
			}
			if !isParam {
				env.vars[fv.Name()] = r.load(final, l)
			}
		}
	}
	if len(r.spec.Ensures) > 0 || r.ifaceSpec != nil {
		o := &Obligation{Name: funcKey(fn) + "/cover#return", Kind: "cover", Func: funcKey(fn), Props: r.spec.Props,
			mark: r.ctx.Mark(), hyps: []Term{reach}, goal: tFalse, ctx: r.ctx, Cover: true, Text: "a normal return is reachable under requires"}
		r.obls = append(r.obls, o)
	}
	if r.ifaceSpec != nil {
		for i, c := range r.ifaceSpec.Ensures {
			g := env.evalBool(c.E)
			if env.err != nil {
				r.fatal = fmt.Sprintf("%s (implements) ensures %d: %v", funcKey(fn), i+1, env.err)
				return
			}
			props := c.Props
			if len(props) == 0 {
				props = r.spec.Props
			}
			o := &Obligation{Name: funcKey(fn) + "/refine#" + clauseName(c, i), Kind: "post", Func: funcKey(fn), Props: props,
				Pos: r.posString(fn.Pos()), Text: "[" + r.spec.Implements + "] " + c.Text, mark: r.ctx.Mark(), hyps: []Term{reach}, goal: g, ctx: r.ctx}
			r.obls = append(r.obls, o)
		}
	}
	for i, c := range r.spec.Ensures {
		if c.Label != "" && r.spec.PerSite[c.Label] {
			// one obligation per return site, in that site's own state (no merge): for heavy clauses of functions with
			// many exits
			for k, rp := range fr.rets {
				senv := &Env{r: r, vars: map[string]Val{}, oldVars: penv.vars, st: rp.st, old: fr.entry, pkg: penv.pkg, specPkg: penv.specPkg, fr: fr, pos: rp.pos}
				for kk, v := range penv.vars {
					senv.vars[kk] = v
				}
				for ri, n := range rn {
					senv.vars[n] = rp.vals[ri]
					senv.vars[fmt.Sprintf("result%d", ri)] = rp.vals[ri]
				}
				if nres == 1 {
					senv.vars["result"] = rp.vals[0]
				}
				parts := senv.evalBoolParts(c.E)
				if senv.err != nil {
					r.fatal = fmt.Sprintf("%s ensures %s at return %d: %v", funcKey(fn), c.Label, k+1, senv.err)
					return
				}
				for pi, g := range parts {
					name := fmt.Sprintf("%s/post#%s@r%d", funcKey(fn), c.Label, k+1)
					if len(parts) > 1 {
						name += fmt.Sprintf(".%d", pi+1)
					}
					o := &Obligation{Name: name, Kind: "post", Func: funcKey(fn), Props: r.clauseProps(fr, c),
						Pos: r.posString(rp.pos), Text: c.Text, mark: r.ctx.Mark(), hyps: []Term{rp.reach}, goal: g, ctx: r.ctx}
					r.obls = append(r.obls, o)
				}
			}
			continue
		}
		parts := env.evalBoolParts(c.E)
		if env.err != nil {
			r.fatal = fmt.Sprintf("%s ensures %d: %v", funcKey(fn), i+1, env.err)
			return
		}
		// ensures are independent of each other: do not let one be assumed for the next
		for pi, g := range parts {
			name := funcKey(fn) + "/post#" + clauseName(c, i)
			if len(parts) > 1 {
				name += fmt.Sprintf(".%d", pi+1)
			}
			o := &Obligation{Name: name, Kind: "post", Func: funcKey(fn), Props: r.clauseProps(fr, c),
				Pos: r.posString(fn.Pos()), Text: c.Text, mark: r.ctx.Mark(), hyps: []Term{reach}, goal: g, ctx: r.ctx}
			if r.topReplay != nil {
				ri := *r.topReplay
				ri.clause = c.E
				o.replay = &ri
			}
			r.obls = append(r.obls, o)
		}
	}
	r.frameCheck(fr, final, reach, penv, env)
}

// frameCheck: everything not listed in assigns is unchanged for objects that existed at entry.
func (r *Run) frameCheck(fr *Frame, final *State, reach Term, penv *Env, fenv *Env) {
	sp := r.spec
	if sp.Havoc {
		return
	}
	for _, a := range r.allAssigns() {
		if id, ok := a.(*EIdent); ok && id.Name == "everything" {
			return
		}
	}
	entry := fr.entry
	top0 := r.heapGet(entry, "$top")
	var comps []string
	for c := range r.compSorts {
		comps = append(comps, c)
	}
	sort.Strings(comps)
	// allowed targets per component, evaluated in the entry state
	type allow struct {
		all  bool
		idxs []Term // allowed indices (objects / bases)
	}
	allowed := map[string]*allow{}
	get := func(c string) *allow {
		if allowed[c] == nil {
			allowed[c] = &allow{}
		}
		return allowed[c]
	}
	preEnv := *penv
	preEnv.st = entry
	preEnv.old = entry
	rnames := map[string]bool{"result": true}
	for i, n := range resultNames(fr.fn.Signature, nil) {
		rnames[n] = true
		rnames[fmt.Sprintf("result%d", i)] = true
	}
	postEnv := *fenv
	var aenvp *Env
	for _, a := range r.allAssigns() {
		aenvp = &preEnv
		if mentionsNames(a, rnames) {
			aenvp = &postEnv
		}
		aenv := aenvp
		switch x := a.(type) {
		case *EIdent:
			if _, ok := r.specs.Ghosts[x.Name]; ok {
				get("ghost." + x.Name).all = true
			}
			if x.Name == "allocates" {
				continue
			}
		case *ECall:
			id, _ := x.Fun.(*EIdent)
			if id != nil && id.Name == "elems" {
				v := aenv.eval(x.Args[0])
				t := aenv.term(v)
				var et types.Type = types.Typ[types.Uint8]
				if v.Typ != nil {
					if s, ok := v.Typ.Underlying().(*types.Slice); ok {
						et = s.Elem()
					}
				}
				comp, _ := r.elemComp(et)
				get(comp).idxs = append(get(comp).idxs, slBase(t))
			}
			if id != nil && id.Name == "comp" {
				if s, ok := x.Args[0].(*EStr); ok {
					get(s.V).all = true
				}
			}
			if id != nil && id.Name == "allmaps" {
				for _, c := range r.allMapsComps(aenv.pkg, x) {
					get(c).all = true
				}
			}
			if id != nil && (id.Name == "allelems" || id.Name == "allboxes") {
				if s, ok := x.Args[0].(*EStr); ok {
					if t := r.resolveType(aenv.pkg, s.V); t != nil {
						if id.Name == "allelems" {
							c, _ := r.elemComp(t)
							get(c).all = true
						} else {
							c, _ := r.boxComp(t)
							get(c).all = true
						}
					}
				}
			}
		case *ESel:
			handled := false
			if id, ok := x.X.(*EIdent); ok {
				if _, bound := aenv.vars[id.Name]; !bound && aenv.pkg != nil {
					if o := aenv.pkg.Scope().Lookup(id.Name); o != nil {
						if _, isType := o.(*types.TypeName); isType {
							get("F." + structName(o.Type()) + "." + x.Sel).all = true
							handled = true
						}
					}
				}
			}
			if !handled {
				v := aenv.eval(x.X)
				if l := r.fieldByName(aenv.st, v, x.Sel); l != nil {
					if l.Kind == LElem {
						get(l.Comp).idxs = append(get(l.Comp).idxs, l.Base)
					} else {
						get(l.Comp).idxs = append(get(l.Comp).idxs, l.Idx)
					}
				}
			}
		case *EUnary:
			if x.Op == "*" {
				v := aenv.eval(x.X)
				if l := r.derefLoc(v); l != nil && l.Kind == LComp {
					get(l.Comp).idxs = append(get(l.Comp).idxs, l.Idx)
				}
			}
		case *EIndex:
			if id, ok := x.X.(*EIdent); ok {
				if _, ok := r.specs.Ghosts[id.Name]; ok {
					i := aenv.term(aenv.eval(x.I))
					get("ghost." + id.Name).idxs = append(get("ghost."+id.Name).idxs, i)
					continue
				}
			}
			v := aenv.eval(x.X)
			t := aenv.term(v)
			if t.Sort == SSlice {
				var et types.Type = types.Typ[types.Uint8]
				if v.Typ != nil {
					if s, ok := v.Typ.Underlying().(*types.Slice); ok {
						et = s.Elem()
					}
				}
				comp, _ := r.elemComp(et)
				get(comp).idxs = append(get(comp).idxs, slBase(t))
			}
		}
	}
	for _, ae := range []*Env{&preEnv, &postEnv} {
		if ae.err != nil {
			r.fatal = fmt.Sprintf("%s assigns: %v", funcKey(fr.fn), ae.err)
			return
		}
	}
	for _, c := range comps {
		if c == "$top" {
			continue
		}
		fin := r.heapGet(final, c)
		ent := r.heapGet(entry, c)
		if fin.S == ent.S {
			continue
		}
		al := allowed[c]
		if al != nil && al.all {
			continue
		}
		var goal Term
		if strings.HasPrefix(r.compSort(c), "(Array ") {
			k := r.ctx.Fresh("frame.k", SInt)
			var ors []Term
			if !strings.HasPrefix(c, "ghost.") && !strings.HasPrefix(c, "held.") {
				ors = append(ors, Gt(k, top0), Eq(k, mkInt(0)))
			}
			if al != nil {
				for _, i := range al.idxs {
					ors = append(ors, Eq(k, i))
				}
			}
			ors = append(ors, Eq(Select(fin, k), Select(ent, k)))
			goal = Or(ors...)
		} else {
			goal = Eq(fin, ent)
		}
		o := &Obligation{Name: funcKey(fr.fn) + "/frame#" + c, Kind: "frame", Func: funcKey(fr.fn), Props: r.spec.Props,
			Pos: r.posString(fr.fn.Pos()), Text: "nothing outside assigns changes in " + c, mark: r.ctx.Mark(), hyps: []Term{reach}, goal: goal, ctx: r.ctx}
		r.obls = append(r.obls, o)
	}
}

// ---------------------------------------------------------------- discharging

func dischargeAll(obls []*Obligation, timeoutS int, workers int) {
	var wg sync.WaitGroup
	ch := make(chan *Obligation)
	for i := 0; i < workers; i++ {
		wg.Add(1)
		go func() {
			defer wg.Done()
			for o := range ch {
				discharge(o, timeoutS)
			}
		}()
	}
	for _, o := range obls {
		ch <- o
	}
	close(ch)
	wg.Wait()
}

func discharge(o *Obligation, timeoutS int) {
	if o.goal.IsTrue() && !o.Cover {
		o.Result = &SolveResult{Status: "unsat", Solver: "simplifier"}
		return
	}
	q := o.ctx.Query(o.mark, o.hyps, o.goal)
	o.Query = q
	t := timeoutS
	if o.Cover {
		// vacuity check: a quick look for a model; "unknown" is not a refutation of reachability
		sq, _, _ := o.ctx.SlicedQuery(o.mark, o.hyps, o.goal)
		res := solveWith("z3-new", o.Name, sq, 1)
		if res.Status == "unsat" {
			// the slice dropped assumptions: only the full query can say "unreachable"
			res = solveWith("z3-new", o.Name, q, 2)
		}
		o.Result = &res
		return
	}
	// stage 0: the cone-of-influence slice of the path-filtered query (an unsat there is a valid discharge)
	sq, kept, nall := o.ctx.PathQuery(o.mark, o.hyps, o.goal, true)
	if dumpSliceDir != "" {
		os.MkdirAll(dumpSliceDir, 0o755)
		os.WriteFile(filepath.Join(dumpSliceDir, sanitize(o.Name)+".slice.smt2"), []byte(sq), 0o644)
	}
	if kept < nall {
		sr := solveWith("z3-new", o.Name+".slice", sq, 3)
		if sr.Status == "unsat" {
			sr.Solver = "z3-new/slice"
			o.Result = &sr
			return
		}
	}
	// stage 1: the path-filtered query without the cone (assumptions of blocks off the path dropped: unsat is valid)
	if pq, pkept, _ := o.ctx.PathQuery(o.mark, o.hyps, o.goal, false); pkept < nall {
		pr := solve(o.Name+".path", pq, t, false)
		if pr.Status == "unsat" {
			pr.Solver += "/path"
			o.Result = &pr
			return
		}
	}
	res := solve(o.Name, q, t, !o.Cover)
	o.Result = &res
	if o.Cover || res.Status == "unsat" || res.Status == "sat" || len(o.splitConds) == 0 {
		return
	}
	// undecided: case split on (up to three of) the function's branch conditions; every case must be unsat
	conds := o.splitConds
	if len(conds) > 3 {
		conds = conds[:3]
	}
	n := 1 << len(conds)
	total := res.Secs
	type sub struct {
		r SolveResult
	}
	results := make([]SolveResult, n)
	var wg sync.WaitGroup
	sem := make(chan struct{}, 8)
	for m := 0; m < n; m++ {
		wg.Add(1)
		go func(m int) {
			defer wg.Done()
			sem <- struct{}{}
			defer func() { <-sem }()
			hyps := append([]Term(nil), o.hyps...)
			for i, c := range conds {
				if m&(1<<i) != 0 {
					hyps = append(hyps, c)
				} else {
					hyps = append(hyps, Not(c))
				}
			}
			results[m] = solve(fmt.Sprintf("%s.case%d", o.Name, m), o.ctx.Query(o.mark, hyps, o.goal), t, true)
		}(m)
	}
	wg.Wait()
	all := true
	for _, sr := range results {
		total += sr.Secs
		if sr.Status == "sat" {
			sr.Secs = total
			sr.Solver += "+split"
			o.Result = &sr
			return
		}
		if sr.Status != "unsat" {
			all = false
		}
	}
	if all {
		o.Result = &SolveResult{Status: "unsat", Solver: fmt.Sprintf("case-split(%d)", n), Secs: total}
	}
}

// Held reports whether the obligation is discharged (or, for covers, not refuted).
func (o *Obligation) Held() bool {
	if o.Result == nil {
		return false
	}
	if o.Cover {
		return o.Result.Status != "unsat" // unsat would mean: vacuous
	}
	return o.Result.Status == "unsat"
}

// allAssigns: the function's own assigns plus those of the interface method it implements.
func (r *Run) allAssigns() []Expr {
	out := append([]Expr(nil), r.spec.Assigns...)
	if r.ifaceSpec != nil {
		out = append(out, r.ifaceAssigns...)
	}
	return out
}

func (r *Run) ifaceParamNames(isp *FuncSpec, key string) []string {
	if len(isp.Params) > 0 {
		return isp.Params
	}
	k := strings.LastIndex(key, ".")
	if k < 0 {
		return nil
	}
	t := r.resolveType(r.specEnvPkg(isp), key[:k])
	if t == nil {
		if k2 := strings.LastIndex(key[:k], "."); k2 >= 0 {
			if p := r.pkgByShort(key[:k2]); p != nil {
				if o := p.Scope().Lookup(key[k2+1 : k]); o != nil {
					t = o.Type()
				}
			}
		}
	}
	if t == nil {
		return nil
	}
	it, ok := t.Underlying().(*types.Interface)
	if !ok {
		return nil
	}
	for i := 0; i < it.NumMethods(); i++ {
		m := it.Method(i)
		if m.Name() == key[k+1:] {
			sig := m.Type().(*types.Signature)
			var names []string
			for j := 0; j < sig.Params().Len(); j++ {
				n := sig.Params().At(j).Name()
				if n == "" || n == "_" {
					n = fmt.Sprintf("arg%d", j)
				}
				names = append(names, n)
			}
			return names
		}
	}
	return nil
}

var dumpSliceDir string

// explain re-runs a refuted obligation and reports which way each branch of the function went in the model.
func explain(o *Obligation, timeoutS int) string {
	if len(o.splitConds) == 0 {
		return ""
	}
	var names []string
	for i, c := range o.splitConds {
		names = append(names, c.S, o.splitReach[i].S)
	}
	base := o.ctx.Query(o.mark, o.hyps, o.goal)
	tail := "(get-value (" + strings.Join(names, " ") + "))\n"
	res := solveWith("z3", o.Name+".explain", base+tail, timeoutS)
	if res.Status != "sat" {
		res = solveWith("z3-new", o.Name+".explain", base+tail, timeoutS)
	}
	note := ""
	if res.Status != "sat" {
		// no model of the real query: look at the relaxation without the quantified assumptions; a model of it is only a
		// candidate (a hint where to look), never evidence
		var keep []string
		for _, ln := range strings.Split(base, "\n") {
			if strings.Contains(ln, "(forall ") || strings.Contains(ln, "(exists ") {
				continue
			}
			keep = append(keep, ln)
		}
		res = solveWith("z3-new", o.Name+".explain-relaxed", strings.Join(keep, "\n")+tail, timeoutS)
		if res.Status != "sat" {
			return "(no model: " + res.Status + ", also none of the quantifier-free relaxation)\n"
		}
		note = "    (candidate only: model of the relaxation WITHOUT quantified assumptions)\n"
	}
	raw := res.Raw
	val := func(name string) string {
		k := strings.Index(raw, "("+name+" ")
		if k < 0 {
			return "?"
		}
		rest := raw[k+len(name)+2:]
		if e := strings.IndexAny(rest, ")\n"); e >= 0 {
			return strings.TrimSpace(rest[:e])
		}
		return "?"
	}
	var b strings.Builder
	b.WriteString(note)
	for i, c := range o.splitConds {
		if val(o.splitReach[i].S) != "true" {
			continue // branch not on the model's path
		}
		fmt.Fprintf(&b, "    %-5s %s\n", val(c.S), o.splitPos[i])
	}
	return b.String()
}

// barrierViolations: calls of the function-typed variable `name` (a parameter, local or captured variable of fn or of
// the literals nested in it) that do not sit behind their own recover barrier.
func barrierViolations(fn *ssa.Function, name string) []string {
	var bad []string
	found := false
	var visit func(f *ssa.Function)
	visit = func(f *ssa.Function) {
		for _, b := range f.Blocks {
			for _, ins := range b.Instrs {
				call, ok := ins.(*ssa.Call)
				if !ok || call.Call.IsInvoke() {
					continue
				}
				if !valueNamed(call.Call.Value, name) {
					continue
				}
				found = true
				if hasLoops(f) || !defersRecover(f) {
					bad = append(bad, f.Name()+" (line "+fmt.Sprint(f.Prog.Fset.Position(ins.Pos()).Line)+")")
				}
			}
		}
		for _, a := range f.AnonFuncs {
			visit(a)
		}
	}
	visit(fn)
	if !found {
		bad = append(bad, "no call of "+name+" found")
	}
	return bad
}

// valueNamed: the value is (a load of) a parameter, local or captured variable with that source name.
func valueNamed(v ssa.Value, name string) bool {
	switch x := v.(type) {
	case *ssa.Parameter:
		return x.Name() == name
	case *ssa.FreeVar:
		return x.Name() == name
	case *ssa.UnOp:
		if x.Op == token.MUL {
			switch a := x.X.(type) {
			case *ssa.Alloc:
				return a.Comment == name
			case *ssa.FreeVar:
				return a.Name() == name
			}
		}
	}
	return false
}

// defersRecover: the function defers a literal that calls recover().
func defersRecover(f *ssa.Function) bool {
	for _, b := range f.Blocks {
		for _, ins := range b.Instrs {
			d, ok := ins.(*ssa.Defer)
			if !ok {
				continue
			}
			var lit *ssa.Function
			switch x := d.Call.Value.(type) {
			case *ssa.MakeClosure:
				lit, _ = x.Fn.(*ssa.Function)
			case *ssa.Function:
				lit = x
			}
			if lit == nil {
				continue
			}
			for _, lb := range lit.Blocks {
				for _, li := range lb.Instrs {
					if c, ok := li.(*ssa.Call); ok {
						if bi, ok := c.Call.Value.(*ssa.Builtin); ok && bi.Name() == "recover" {
							return true
						}
					}
				}
			}
		}
	}
	return false
}
