package main

import (
	"fmt"
	"go/types"
	"sort"
	"strings"
	"sync"
	"time"

	"golang.org/x/tools/go/ssa"
)

type FuncResult struct {
	Key      string
	Obls     []*Obligation
	Warns    map[string]int
	Trusted  []string
	Fatal    string
	ArithMath bool
	GenSecs  float64
}

func newRun(prog *Program, specs *Specs, fn *ssa.Function, spec *FuncSpec) *Run {
	r := &Run{prog: prog, specs: specs, ctx: newCtx(), fn: fn, spec: spec, warns: map[string]int{},
		trusted: map[string]bool{}, typeTags: globalTypeTags, strLits: map[string]int{}, compSorts: map[string]string{}}
	r.regComp("$top", SInt)
	return r
}

// type tags are global so that error values keep their identity across functions of one run
var globalTypeTags = map[string]int{}
var typeTagMu sync.Mutex

func verifyFunction(prog *Program, specs *Specs, key string) (res *FuncResult) {
	start := time.Now()
	res = &FuncResult{Key: key}
	fn := prog.Funcs[key]
	spec := specs.Funcs[key]
	if fn == nil {
		res.Fatal = "anchor does not resolve: no function " + key
		return
	}
	if len(fn.Blocks) == 0 {
		res.Fatal = "function has no body: " + key
		return
	}
	defer func() {
		if x := recover(); x != nil {
			res.Fatal = fmt.Sprintf("engine panic in %s: %v", key, x)
		}
	}()
	r := newRun(prog, specs, fn, spec)
	typeTagMu.Lock()
	defer typeTagMu.Unlock()
	r.verifyTop()
	for _, o := range r.obls {
		if t, ok := r.knownExcl[o.Name]; ok {
			tt := t
			o.exclTerm = &tt
		}
	}
	res.Obls = r.obls
	res.Warns = r.warns
	for k := range r.trusted {
		res.Trusted = append(res.Trusted, k)
	}
	sort.Strings(res.Trusted)
	res.Fatal = r.fatal
	res.ArithMath = r.arithAssumed
	res.GenSecs = time.Since(start).Seconds()
	return
}

func (r *Run) verifyTop() {
	fn := r.fn
	fr := r.newFrame(fn, nil)
	r.top = fr
	fr.spec = r.spec
	st := &State{cells: map[cellKey]Val{}, heap: map[string]Term{}, ep: r.newEpoch()}
	top0 := r.heapGet(st, "$top")
	r.ctx.Assert(Ge(top0, mkInt(0)))
	penv := &Env{r: r, vars: map[string]Val{}, oldVars: map[string]Val{}, st: st, old: st}
	if fn.Pkg != nil {
		penv.pkg = fn.Pkg.Pkg
		penv.specPkg = shortPkg(fn.Pkg.Pkg.Path())
	} else {
		be := r.baseEnv(fr, st)
		penv.pkg, penv.specPkg = be.pkg, be.specPkg
	}
	for i, p := range fn.Params {
		v := r.freshTyped("p."+p.Name(), p.Type(), st)
		fr.regs[p] = v
		fr.params = append(fr.params, v)
		penv.vars[p.Name()] = v
		penv.oldVars[p.Name()] = v
		if i == 0 && fn.Signature.Recv() != nil {
			if _, ok := p.Type().Underlying().(*types.Pointer); ok && v.Kind == VTerm {
				r.ctx.Assert(Not(Eq(v.T, mkInt(0))))
				r.trusted["method receivers are non-nil"] = true
			}
		}
	}
	for _, fv := range fn.FreeVars {
		v := r.freshTyped("fv."+fv.Name(), fv.Type(), st)
		if v.Kind == VTerm {
			r.ctx.Assert(Not(Eq(v.T, mkInt(0))))
		}
		fr.free[fv] = v
		// captured variables are visible to contracts by name (current value)
	}
	fr.entry = st.clone()
	for _, k := range activeKnown {
		if k.excl != nil && strings.HasPrefix(k.Obligation, funcKey(fn)+"/") {
			t := penv.evalBool(k.excl)
			if penv.err != nil {
				r.fatal = fmt.Sprintf("known finding %s: excluded predicate: %v", k.Obligation, penv.err)
				return
			}
			if r.knownExcl == nil {
				r.knownExcl = map[string]Term{}
			}
			r.knownExcl[k.Obligation] = t
		}
	}
	// preconditions
	if r.spec != nil {
		for i, c := range r.spec.Requires {
			g := penv.evalBool(c.E)
			if penv.err != nil {
				r.fatal = fmt.Sprintf("%s requires %d: %v", funcKey(fn), i+1, penv.err)
				return
			}
			r.ctx.Assert(g)
		}
		for _, c := range r.specs.Axioms {
			_ = c
		}
		// vacuity: the precondition must be satisfiable
		if len(r.spec.Requires) > 0 {
			o := &Obligation{Name: funcKey(fn) + "/cover#requires", Kind: "cover", Func: funcKey(fn), Props: r.spec.Props,
				mark: r.ctx.Mark(), goal: tFalse, ctx: r.ctx, Cover: true, Text: "requires is satisfiable"}
			r.obls = append(r.obls, o)
		}
		r.ghostAt(fr, st, tTrue, "entry", nil)
	}
	entryHeld := map[string]Term{}
	_ = entryHeld
	r.execFrame(fr, st, tTrue)
	if r.fatal != "" {
		return
	}
	if len(fr.rets) == 0 {
		return
	}
	var conds []Term
	var sts []*State
	for _, rp := range fr.rets {
		conds = append(conds, rp.reach)
		sts = append(sts, rp.st)
	}
	final := r.mergeStates(conds, sts)
	reach := r.ctx.Define("Rreturn", Or(conds...))
	nres := fn.Signature.Results().Len()
	var results []Val
	for i := 0; i < nres; i++ {
		var vals []Val
		for _, rp := range fr.rets {
			vals = append(vals, rp.vals[i])
		}
		results = append(results, r.mergeVals(conds, vals, fmt.Sprintf("result%d", i)))
	}
	if r.spec == nil {
		return
	}
	r.ghostAt(fr, final, reach, "return", nil)
	env := &Env{r: r, vars: map[string]Val{}, oldVars: penv.vars, st: final, old: fr.entry, pkg: penv.pkg, specPkg: penv.specPkg}
	for k, v := range penv.vars {
		env.vars[k] = v
	}
	rn := resultNames(fn.Signature, nil)
	for i, n := range rn {
		env.vars[n] = results[i]
		env.vars[fmt.Sprintf("result%d", i)] = results[i]
	}
	if nres == 1 {
		env.vars["result"] = results[0]
	}
	// captured variables by name (closures verified on their own)
	for _, fv := range fn.FreeVars {
		if l := r.derefLoc(fr.free[fv]); l != nil {
			if _, clash := env.vars[fv.Name()]; !clash {
				env.vars[fv.Name()] = r.load(final, l)
				env.oldVars[fv.Name()] = r.load(fr.entry, l)
			}
		}
	}
	if len(r.spec.Ensures) > 0 {
		o := &Obligation{Name: funcKey(fn) + "/cover#return", Kind: "cover", Func: funcKey(fn), Props: r.spec.Props,
			mark: r.ctx.Mark(), hyps: []Term{reach}, goal: tFalse, ctx: r.ctx, Cover: true, Text: "a normal return is reachable under requires"}
		r.obls = append(r.obls, o)
	}
	for i, c := range r.spec.Ensures {
		g := env.evalBool(c.E)
		if env.err != nil {
			r.fatal = fmt.Sprintf("%s ensures %d: %v", funcKey(fn), i+1, env.err)
			return
		}
		// ensures are independent of each other: do not let one be assumed for the next
		o := &Obligation{Name: funcKey(fn) + "/post#" + clauseName(c, i), Kind: "post", Func: funcKey(fn), Props: r.clauseProps(fr, c),
			Pos: r.posString(fn.Pos()), Text: c.Text, mark: r.ctx.Mark(), hyps: []Term{reach}, goal: g, ctx: r.ctx}
		r.obls = append(r.obls, o)
	}
	r.frameCheck(fr, final, reach, penv)
}

// frameCheck: everything not listed in assigns is unchanged for objects that existed at entry.
func (r *Run) frameCheck(fr *Frame, final *State, reach Term, penv *Env) {
	sp := r.spec
	if sp.Havoc {
		return
	}
	for _, a := range sp.Assigns {
		if id, ok := a.(*EIdent); ok && id.Name == "everything" {
			return
		}
	}
	entry := fr.entry
	top0 := r.heapGet(entry, "$top")
	var comps []string
	for c := range r.compSorts {
		comps = append(comps, c)
	}
	sort.Strings(comps)
	// allowed targets per component, evaluated in the entry state
	type allow struct {
		all  bool
		idxs []Term // allowed indices (objects / bases)
	}
	allowed := map[string]*allow{}
	get := func(c string) *allow {
		if allowed[c] == nil {
			allowed[c] = &allow{}
		}
		return allowed[c]
	}
	aenv := *penv
	aenv.st = entry
	aenv.old = entry
	for _, a := range sp.Assigns {
		switch x := a.(type) {
		case *EIdent:
			if _, ok := r.specs.Ghosts[x.Name]; ok {
				get("ghost." + x.Name).all = true
			}
			if x.Name == "allocates" {
				continue
			}
		case *ECall:
			id, _ := x.Fun.(*EIdent)
			if id != nil && id.Name == "elems" {
				v := aenv.eval(x.Args[0])
				t := aenv.term(v)
				var et types.Type = types.Typ[types.Uint8]
				if v.Typ != nil {
					if s, ok := v.Typ.Underlying().(*types.Slice); ok {
						et = s.Elem()
					}
				}
				comp, _ := r.elemComp(et)
				get(comp).idxs = append(get(comp).idxs, slBase(t))
			}
			if id != nil && id.Name == "comp" {
				if s, ok := x.Args[0].(*EStr); ok {
					get(s.V).all = true
				}
			}
		case *ESel:
			handled := false
			if id, ok := x.X.(*EIdent); ok {
				if _, bound := aenv.vars[id.Name]; !bound && aenv.pkg != nil {
					if o := aenv.pkg.Scope().Lookup(id.Name); o != nil {
						if _, isType := o.(*types.TypeName); isType {
							get("F." + structName(o.Type()) + "." + x.Sel).all = true
							handled = true
						}
					}
				}
			}
			if !handled {
				v := aenv.eval(x.X)
				if l := r.fieldByName(entry, v, x.Sel); l != nil {
					get(l.Comp).idxs = append(get(l.Comp).idxs, l.Idx)
				}
			}
		case *EUnary:
			if x.Op == "*" {
				v := aenv.eval(x.X)
				if l := r.derefLoc(v); l != nil && l.Kind == LComp {
					get(l.Comp).idxs = append(get(l.Comp).idxs, l.Idx)
				}
			}
		case *EIndex:
			if id, ok := x.X.(*EIdent); ok {
				if _, ok := r.specs.Ghosts[id.Name]; ok {
					i := aenv.term(aenv.eval(x.I))
					get("ghost." + id.Name).idxs = append(get("ghost."+id.Name).idxs, i)
					continue
				}
			}
			v := aenv.eval(x.X)
			t := aenv.term(v)
			if t.Sort == SSlice {
				var et types.Type = types.Typ[types.Uint8]
				if v.Typ != nil {
					if s, ok := v.Typ.Underlying().(*types.Slice); ok {
						et = s.Elem()
					}
				}
				comp, _ := r.elemComp(et)
				get(comp).idxs = append(get(comp).idxs, slBase(t))
			}
		}
	}
	if aenv.err != nil {
		r.fatal = fmt.Sprintf("%s assigns: %v", funcKey(fr.fn), aenv.err)
		return
	}
	for _, c := range comps {
		if c == "$top" {
			continue
		}
		fin := r.heapGet(final, c)
		ent := r.heapGet(entry, c)
		if fin.S == ent.S {
			continue
		}
		al := allowed[c]
		if al != nil && al.all {
			continue
		}
		var goal Term
		if strings.HasPrefix(r.compSort(c), "(Array ") {
			k := r.ctx.Fresh("frame.k", SInt)
			var ors []Term
			if !strings.HasPrefix(c, "ghost.") && !strings.HasPrefix(c, "held.") {
				ors = append(ors, Gt(k, top0), Le(k, mkInt(0)))
			}
			if al != nil {
				for _, i := range al.idxs {
					ors = append(ors, Eq(k, i))
				}
			}
			ors = append(ors, Eq(Select(fin, k), Select(ent, k)))
			goal = Or(ors...)
		} else {
			goal = Eq(fin, ent)
		}
		o := &Obligation{Name: funcKey(fr.fn) + "/frame#" + c, Kind: "frame", Func: funcKey(fr.fn), Props: r.spec.Props,
			Pos: r.posString(fr.fn.Pos()), Text: "nothing outside assigns changes in " + c, mark: r.ctx.Mark(), hyps: []Term{reach}, goal: goal, ctx: r.ctx}
		r.obls = append(r.obls, o)
	}
}

// ---------------------------------------------------------------- discharging

func dischargeAll(obls []*Obligation, timeoutS int, workers int) {
	var wg sync.WaitGroup
	ch := make(chan *Obligation)
	for i := 0; i < workers; i++ {
		wg.Add(1)
		go func() {
			defer wg.Done()
			for o := range ch {
				discharge(o, timeoutS)
			}
		}()
	}
	for _, o := range obls {
		ch <- o
	}
	close(ch)
	wg.Wait()
}

func discharge(o *Obligation, timeoutS int) {
	if o.goal.IsTrue() && !o.Cover {
		o.Result = &SolveResult{Status: "unsat", Solver: "simplifier"}
		return
	}
	q := o.ctx.Query(o.mark, o.hyps, o.goal)
	o.Query = q
	t := timeoutS
	if o.Cover && t > 5 {
		t = 5
	}
	res := solve(o.Name, q, t, !o.Cover)
	o.Result = &res
}

// Held reports whether the obligation is discharged (or, for covers, not refuted).
func (o *Obligation) Held() bool {
	if o.Result == nil {
		return false
	}
	if o.Cover {
		return o.Result.Status != "unsat" // unsat would mean: vacuous
	}
	return o.Result.Status == "unsat"
}
