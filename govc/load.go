package main

import (
	"fmt"
	"go/token"
	"go/types"
	"os"
	"sort"
	"strings"

	"golang.org/x/tools/go/packages"
	"golang.org/x/tools/go/ssa"
	"golang.org/x/tools/go/ssa/ssautil"
)

const repoModule = "github.com/lesismal/nbio"

// Program is the loaded view of /repo's working tree.
type Program struct {
	Fset  *token.FileSet
	Pkgs  []*packages.Package
	SSA   *ssa.Program
	ByPkg map[string]*ssa.Package // import path -> ssa package
	// Funcs maps our canonical function key to the ssa function.
	Funcs map[string]*ssa.Function
	mutGlobals map[*types.Var]bool
	globalAlias map[*types.Var]*types.Var
	globalFresh map[*types.Var]bool
	globalLen   map[*types.Var]int64
	nonZeroGlobals map[*types.Var]bool
}

// mutableGlobal: is the package-level variable assigned anywhere outside package initialisation?
// Variables of packages outside the repository are taken to be immutable (trusted).
func (p *Program) mutableGlobal(v *types.Var) bool {
	if p.mutGlobals == nil {
		p.mutGlobals = map[*types.Var]bool{}
		var scan func(f *ssa.Function)
		scan = func(f *ssa.Function) {
			for _, b := range f.Blocks {
				for _, ins := range b.Instrs {
					if _, isDbg := ins.(*ssa.DebugRef); isDbg {
						continue
					}
					if st, ok := ins.(*ssa.Store); ok {
						if g, ok := st.Addr.(*ssa.Global); ok {
							if gv, ok := g.Object().(*types.Var); ok {
								p.mutGlobals[gv] = true
							}
						}
					}
					// address taken and passed around: treat as mutable
					if _, isStore := ins.(*ssa.Store); !isStore {
						for _, op := range ins.Operands(nil) {
							if g, ok := (*op).(*ssa.Global); ok {
								if _, isLoad := ins.(*ssa.UnOp); !isLoad {
									if _, isFA := ins.(*ssa.FieldAddr); !isFA {
										if _, isIA := ins.(*ssa.IndexAddr); !isIA {
											if gv, ok := g.Object().(*types.Var); ok {
												p.mutGlobals[gv] = true
											}
										}
									}
								}
							}
						}
					}
				}
			}
		}
		for _, f := range p.Funcs {
			if f.Name() == "init" || strings.HasPrefix(f.Name(), "init#") {
				continue
			}
			scan(f)
		}
	}
	return p.mutGlobals[v]
}

var repoDir = "/repo"

func loadProgram(patterns []string) (*Program, error) {
	if d := os.Getenv("GOVC_REPO"); d != "" {
		repoDir = d
	}
	cfg := &packages.Config{
		Mode: packages.LoadAllSyntax,
		Dir:  repoDir,
		Env: append(os.Environ(), "GOFLAGS=-mod=mod", "GOPROXY=off", "GOSUMDB=off",
			"GOTOOLCHAIN=local"),
	}
	pkgs, err := packages.Load(cfg, patterns...)
	if err != nil {
		return nil, err
	}
	nerr := 0
	packages.Visit(pkgs, nil, func(p *packages.Package) {
		if strings.HasPrefix(p.PkgPath, repoModule) {
			for _, e := range p.Errors {
				fmt.Fprintln(os.Stderr, "load error:", e)
				nerr++
			}
		}
	})
	if nerr > 0 {
		return nil, fmt.Errorf("%d load errors", nerr)
	}
	prog, spkgs := ssautil.AllPackages(pkgs, ssa.NaiveForm|ssa.GlobalDebug)
	_ = spkgs
	// Build only the repo's own packages (others are needed for types only).
	p := &Program{Fset: prog.Fset, Pkgs: pkgs, SSA: prog, ByPkg: map[string]*ssa.Package{}, Funcs: map[string]*ssa.Function{}}
	for _, sp := range prog.AllPackages() {
		if sp == nil || sp.Pkg == nil {
			continue
		}
		path := sp.Pkg.Path()
		if strings.HasPrefix(path, repoModule) {
			sp.Build()
			p.ByPkg[path] = sp
		}
	}
	for _, sp := range p.ByPkg {
		for _, m := range sp.Members {
			switch m := m.(type) {
			case *ssa.Function:
				p.addFunc(m)
			case *ssa.Type:
				for _, t := range []types.Type{m.Type(), types.NewPointer(m.Type())} {
					ms := prog.MethodSets.MethodSet(t)
					for i := 0; i < ms.Len(); i++ {
						f := prog.MethodValue(ms.At(i))
						if f != nil && f.Synthetic == "" {
							p.addFunc(f)
						}
					}
				}
			}
		}
	}
	return p, nil
}

func (p *Program) addFunc(f *ssa.Function) {
	k := funcKey(f)
	if _, ok := p.Funcs[k]; ok {
		return
	}
	p.Funcs[k] = f
	for _, a := range f.AnonFuncs {
		p.addFunc(a)
	}
}

// shortPkg turns an import path into the short path used in keys:
// github.com/lesismal/nbio/nbhttp/websocket -> nbhttp/websocket; root -> nbio.
func shortPkg(path string) string {
	if path == repoModule {
		return "nbio"
	}
	if strings.HasPrefix(path, repoModule+"/") {
		return strings.TrimPrefix(path, repoModule+"/")
	}
	return path
}

// funcKey: "<shortpkg>.Func", "<shortpkg>.(*T).M", "<shortpkg>.(T).M", closures "…$1".
func funcKey(f *ssa.Function) string {
	if f.Parent() != nil {
		// go/ssa names anon funcs Parent$N
		name := f.Name() // e.g. "flush$1"
		par := funcKey(f.Parent())
		if i := strings.LastIndex(name, "$"); i >= 0 {
			return par + name[i:]
		}
		return par + "$" + name
	}
	pkg := ""
	if f.Pkg != nil {
		pkg = shortPkg(f.Pkg.Pkg.Path())
	} else if f.Object() != nil && f.Object().Pkg() != nil {
		pkg = shortPkg(f.Object().Pkg().Path())
	}
	if recv := f.Signature.Recv(); recv != nil {
		t := recv.Type()
		ptr := false
		if pt, ok := t.(*types.Pointer); ok {
			t = pt.Elem()
			ptr = true
		}
		tn := "?"
		if nt, ok := t.(*types.Named); ok {
			tn = nt.Obj().Name()
			if nt.Obj().Pkg() != nil {
				pkg = shortPkg(nt.Obj().Pkg().Path())
			}
		}
		if ptr {
			return fmt.Sprintf("%s.(*%s).%s", pkg, tn, f.Name())
		}
		return fmt.Sprintf("%s.(%s).%s", pkg, tn, f.Name())
	}
	return pkg + "." + f.Name()
}

func (p *Program) sortedFuncKeys() []string {
	ks := make([]string, 0, len(p.Funcs))
	for k := range p.Funcs {
		ks = append(ks, k)
	}
	sort.Strings(ks)
	return ks
}

func dumpSSA(p *Program, key string) {
	f := p.Funcs[key]
	if f == nil {
		fmt.Println("no such function; candidates:")
		for _, k := range p.sortedFuncKeys() {
			if strings.Contains(k, key) {
				fmt.Println("  ", k)
			}
		}
		return
	}
	f.WriteTo(os.Stdout)
}

// globalInit classifies how a repo package-level variable is initialised: by a call that creates a new error
// value (fresh == true), or as a copy of another package-level variable (alias != nil).
func (p *Program) globalInit(v *types.Var) (fresh bool, alias *types.Var) {
	if p.globalAlias == nil {
		p.globalAlias = map[*types.Var]*types.Var{}
		p.globalFresh = map[*types.Var]bool{}
		p.globalLen = map[*types.Var]int64{}
		for _, sp := range p.ByPkg {
			init := sp.Func("init")
			if init == nil {
				continue
			}
			for _, b := range init.Blocks {
				for _, ins := range b.Instrs {
					st, ok := ins.(*ssa.Store)
					if !ok {
						continue
					}
					g, ok := st.Addr.(*ssa.Global)
					if !ok {
						continue
					}
					gv, ok := g.Object().(*types.Var)
					if !ok {
						continue
					}
					switch x := st.Val.(type) {
					case *ssa.Call:
						if f, ok := x.Call.Value.(*ssa.Function); ok {
							switch f.String() {
							case "errors.New", "fmt.Errorf":
								p.globalFresh[gv] = true
							}
						}
					case *ssa.Slice:
						// []T{...} literal: a slice of a new [N]T with default bounds
						if x.Low == nil && x.High == nil && x.Max == nil {
							if pt, ok := x.X.Type().Underlying().(*types.Pointer); ok {
								if at, ok := pt.Elem().Underlying().(*types.Array); ok {
									p.globalLen[gv] = at.Len()
								}
							}
						}
					case *ssa.UnOp:
						if h, ok := x.X.(*ssa.Global); ok {
							if hv, ok := h.Object().(*types.Var); ok {
								p.globalAlias[gv] = hv
							}
						}
					}
				}
			}
		}
	}
	return p.globalFresh[v], p.globalAlias[v]
}

// zeroGlobal: a package-level variable that is only ever read as a whole (never stored to, no address or field
// address taken, in any function including the package initialiser): it keeps its zero value.
func (p *Program) zeroGlobal(v *types.Var) bool {
	if p.nonZeroGlobals == nil {
		p.nonZeroGlobals = map[*types.Var]bool{}
		for _, f := range p.Funcs {
			for _, b := range f.Blocks {
				for _, ins := range b.Instrs {
					if _, isDbg := ins.(*ssa.DebugRef); isDbg {
						continue
					}
					for _, op := range ins.Operands(nil) {
						g, ok := (*op).(*ssa.Global)
						if !ok {
							continue
						}
						if u, isLoad := ins.(*ssa.UnOp); isLoad && u.Op == token.MUL {
							continue
						}
						if gv, ok := g.Object().(*types.Var); ok {
							p.nonZeroGlobals[gv] = true
						}
					}
				}
			}
		}
	}
	return !p.nonZeroGlobals[v]
}

// globalInitLen: length of a package-level slice initialised with a composite literal (ok == false otherwise).
func (p *Program) globalInitLen(v *types.Var) (int64, bool) {
	p.globalInit(v)
	n, ok := p.globalLen[v]
	return n, ok
}
