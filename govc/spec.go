package main

import (
	"fmt"
	"math/big"
	"os"
	"path/filepath"
	"regexp"
	"sort"
	"strconv"
	"strings"
)

// ---------------------------------------------------------------- expression AST

type Expr interface{}

type (
	EIdent  struct{ Name string }
	EInt    struct{ V *big.Int }
	EStr    struct{ V string }
	EUnary  struct {
		Op string
		X  Expr
	}
	EBinary struct {
		Op   string
		X, Y Expr
	}
	ECall struct {
		Fun  Expr
		Args []Expr
	}
	EIndex struct{ X, I Expr }
	ESlice struct{ X, Lo, Hi Expr }
	ESel   struct {
		X   Expr
		Sel string
	}
	EQuant struct {
		Forall   bool
		Vars     []QVar
		Triggers []Expr
		Body     Expr
	}
)

type QVar struct{ Name, Type string }

func exprString(e Expr) string {
	switch e := e.(type) {
	case nil:
		return ""
	case *EIdent:
		return e.Name
	case *EInt:
		return e.V.String()
	case *EStr:
		return strconv.Quote(e.V)
	case *EUnary:
		return e.Op + exprString(e.X)
	case *EBinary:
		return "(" + exprString(e.X) + " " + e.Op + " " + exprString(e.Y) + ")"
	case *ECall:
		var as []string
		for _, a := range e.Args {
			as = append(as, exprString(a))
		}
		return exprString(e.Fun) + "(" + strings.Join(as, ", ") + ")"
	case *EIndex:
		return exprString(e.X) + "[" + exprString(e.I) + "]"
	case *ESlice:
		return exprString(e.X) + "[" + exprString(e.Lo) + ":" + exprString(e.Hi) + "]"
	case *ESel:
		return exprString(e.X) + "." + e.Sel
	case *EQuant:
		q := "exists"
		if e.Forall {
			q = "forall"
		}
		var vs []string
		for _, v := range e.Vars {
			vs = append(vs, strings.TrimSpace(v.Name+" "+v.Type))
		}
		return "(" + q + " " + strings.Join(vs, ", ") + " :: " + exprString(e.Body) + ")"
	}
	return fmt.Sprintf("%v", e)
}

// ---------------------------------------------------------------- lexer

type tok struct {
	kind string // id int str op eof
	s    string
	pos  int
}

func lex(src string) ([]tok, error) {
	var toks []tok
	i := 0
	ops := []string{"<==>", "==>", "::", "&&", "||", "==", "!=", "<=", ">=", "<<", ">>", "&^", "..",
		"+", "-", "*", "/", "%", "&", "|", "^", "<", ">", "!", "(", ")", "[", "]", ",", ".", ":", "{", "}"}
	for i < len(src) {
		c := src[i]
		switch {
		case c == ' ' || c == '\t' || c == '\n' || c == '\r':
			i++
		case c >= '0' && c <= '9':
			j := i
			if c == '0' && j+1 < len(src) && (src[j+1] == 'x' || src[j+1] == 'X') {
				j += 2
				for j < len(src) && (isHex(src[j]) || src[j] == '_') {
					j++
				}
			} else {
				for j < len(src) && (src[j] >= '0' && src[j] <= '9' || src[j] == '_') {
					j++
				}
			}
			toks = append(toks, tok{"int", src[i:j], i})
			i = j
		case c == '_' || c >= 'a' && c <= 'z' || c >= 'A' && c <= 'Z':
			j := i
			for j < len(src) && (src[j] == '_' || src[j] == '$' || src[j] >= 'a' && src[j] <= 'z' || src[j] >= 'A' && src[j] <= 'Z' || src[j] >= '0' && src[j] <= '9') {
				j++
			}
			toks = append(toks, tok{"id", src[i:j], i})
			i = j
		case c == '"':
			j := i + 1
			for j < len(src) && src[j] != '"' {
				if src[j] == '\\' {
					j++
				}
				j++
			}
			if j >= len(src) {
				return nil, fmt.Errorf("unterminated string at %d", i)
			}
			s, err := strconv.Unquote(src[i : j+1])
			if err != nil {
				return nil, fmt.Errorf("bad string at %d: %v", i, err)
			}
			toks = append(toks, tok{"str", s, i})
			i = j + 1
		case c == '\'':
			j := i + 1
			for j < len(src) && src[j] != '\'' {
				if src[j] == '\\' {
					j++
				}
				j++
			}
			if j >= len(src) {
				return nil, fmt.Errorf("unterminated char at %d", i)
			}
			r, _, _, err := strconv.UnquoteChar(src[i+1:j], '\'')
			if err != nil {
				return nil, fmt.Errorf("bad char at %d: %v", i, err)
			}
			toks = append(toks, tok{"int", strconv.Itoa(int(r)), i})
			i = j + 1
		default:
			matched := false
			for _, op := range ops {
				if strings.HasPrefix(src[i:], op) {
					toks = append(toks, tok{"op", op, i})
					i += len(op)
					matched = true
					break
				}
			}
			if !matched {
				return nil, fmt.Errorf("unexpected character %q at %d", c, i)
			}
		}
	}
	toks = append(toks, tok{"eof", "", len(src)})
	return toks, nil
}

func isHex(c byte) bool {
	return c >= '0' && c <= '9' || c >= 'a' && c <= 'f' || c >= 'A' && c <= 'F'
}

// ---------------------------------------------------------------- parser

type parser struct {
	toks []tok
	p    int
	src  string
}

func parseExpr(src string) (e Expr, err error) {
	toks, err := lex(src)
	if err != nil {
		return nil, err
	}
	ps := &parser{toks: toks, src: src}
	defer func() {
		if r := recover(); r != nil {
			if pe, ok := r.(parseErr); ok {
				err = fmt.Errorf("%s in %q", string(pe), src)
				return
			}
			panic(r)
		}
	}()
	e = ps.expr()
	if ps.peek().kind != "eof" {
		ps.fail("trailing tokens at %d", ps.peek().pos)
	}
	return e, nil
}

type parseErr string

func (ps *parser) fail(f string, a ...interface{}) { panic(parseErr(fmt.Sprintf(f, a...))) }
func (ps *parser) peek() tok                        { return ps.toks[ps.p] }
func (ps *parser) next() tok                        { t := ps.toks[ps.p]; ps.p++; return t }
func (ps *parser) isOp(s string) bool               { t := ps.peek(); return t.kind == "op" && t.s == s }
func (ps *parser) accept(s string) bool {
	if ps.isOp(s) {
		ps.p++
		return true
	}
	return false
}
func (ps *parser) expect(s string) {
	if !ps.accept(s) {
		ps.fail("expected %q at %d, got %q", s, ps.peek().pos, ps.peek().s)
	}
}

func (ps *parser) expr() Expr { return ps.iff() }

func (ps *parser) iff() Expr {
	x := ps.impl()
	for ps.accept("<==>") {
		y := ps.impl()
		x = &EBinary{"<==>", x, y}
	}
	return x
}

func (ps *parser) impl() Expr {
	x := ps.or()
	if ps.accept("==>") {
		y := ps.impl()
		return &EBinary{"==>", x, y}
	}
	return x
}

func (ps *parser) or() Expr {
	x := ps.and()
	for ps.accept("||") {
		x = &EBinary{"||", x, ps.and()}
	}
	return x
}

func (ps *parser) and() Expr {
	x := ps.cmp()
	for ps.accept("&&") {
		x = &EBinary{"&&", x, ps.cmp()}
	}
	return x
}

func (ps *parser) cmp() Expr {
	x := ps.add()
	for _, op := range []string{"==", "!=", "<=", ">=", "<", ">"} {
		if ps.accept(op) {
			return &EBinary{op, x, ps.add()}
		}
	}
	return x
}

func (ps *parser) add() Expr {
	x := ps.mul()
	for {
		switch {
		case ps.accept("+"):
			x = &EBinary{"+", x, ps.mul()}
		case ps.accept("-"):
			x = &EBinary{"-", x, ps.mul()}
		case ps.accept("|"):
			x = &EBinary{"|", x, ps.mul()}
		case ps.accept("^"):
			x = &EBinary{"^", x, ps.mul()}
		default:
			return x
		}
	}
}

func (ps *parser) mul() Expr {
	x := ps.unary()
	for {
		found := false
		for _, op := range []string{"*", "/", "%", "<<", ">>", "&^", "&"} {
			if ps.accept(op) {
				x = &EBinary{op, x, ps.unary()}
				found = true
				break
			}
		}
		if !found {
			return x
		}
	}
}

func (ps *parser) unary() Expr {
	for _, op := range []string{"!", "-", "*", "&", "^"} {
		if ps.accept(op) {
			return &EUnary{op, ps.unary()}
		}
	}
	return ps.postfix()
}

func (ps *parser) postfix() Expr {
	x := ps.primary()
	for {
		switch {
		case ps.accept("."):
			t := ps.next()
			if t.kind != "id" {
				ps.fail("expected field name at %d", t.pos)
			}
			x = &ESel{x, t.s}
		case ps.accept("["):
			var lo, hi Expr
			if ps.isOp(":") {
				ps.next()
				if !ps.isOp("]") {
					hi = ps.expr()
				}
				ps.expect("]")
				x = &ESlice{x, nil, hi}
				continue
			}
			lo = ps.expr()
			if ps.accept(":") {
				if !ps.isOp("]") {
					hi = ps.expr()
				}
				ps.expect("]")
				x = &ESlice{x, lo, hi}
				continue
			}
			ps.expect("]")
			x = &EIndex{x, lo}
		case ps.accept("("):
			var args []Expr
			for !ps.isOp(")") {
				args = append(args, ps.expr())
				if !ps.accept(",") {
					break
				}
			}
			ps.expect(")")
			x = &ECall{x, args}
		default:
			return x
		}
	}
}

func (ps *parser) primary() Expr {
	t := ps.next()
	switch t.kind {
	case "int":
		s := strings.ReplaceAll(t.s, "_", "")
		v, ok := new(big.Int).SetString(s, 0)
		if !ok {
			ps.fail("bad int %q", t.s)
		}
		return &EInt{v}
	case "str":
		return &EStr{t.s}
	case "id":
		if t.s == "forall" || t.s == "exists" {
			return ps.quant(t.s == "forall")
		}
		return &EIdent{t.s}
	case "op":
		if t.s == "(" {
			e := ps.expr()
			ps.expect(")")
			return e
		}
	}
	ps.fail("unexpected token %q at %d", t.s, t.pos)
	return nil
}

// forall i, j int, t *toWrite :: body    (type optional, default int)
func (ps *parser) quant(forall bool) Expr {
	var vars []QVar
	var triggers []Expr
	for {
		t := ps.next()
		if t.kind != "id" {
			ps.fail("expected bound variable at %d", t.pos)
		}
		v := QVar{Name: t.s}
		// optional type: tokens up to ',' or '::'
		start := ps.peek().pos
		for !ps.isOp(",") && !ps.isOp("::") && !ps.isOp("{") && ps.peek().kind != "eof" {
			ps.next()
		}
		v.Type = strings.TrimSpace(ps.src[start:ps.peek().pos])
		vars = append(vars, v)
		if ps.accept("{") {
			// explicit multi-pattern: { t1, t2 }
			for !ps.isOp("}") {
				triggers = append(triggers, ps.expr())
				if !ps.accept(",") {
					break
				}
			}
			ps.expect("}")
			ps.expect("::")
			break
		}
		if ps.accept("::") {
			break
		}
		ps.expect(",")
	}
	// types propagate backwards: "i, j int" gives both int
	for i := len(vars) - 2; i >= 0; i-- {
		if vars[i].Type == "" {
			vars[i].Type = vars[i+1].Type
		}
	}
	body := ps.expr()
	return &EQuant{forall, vars, triggers, body}
}

// ---------------------------------------------------------------- contract files

type Clause struct {
	Label string
	E     Expr
	Props []string
	Text  string
	Pkg   string
}

type LoopSpec struct {
	Invariants []Clause
	Decreases  Expr
	Unroll     int
	Carried    []string // the only locals that may carry a value from one iteration to a later one
	HasCarried bool
	CarriedProps []string
}

type GhostBlock struct {
	// at <lock|unlock|call name>#k ghost { x = e; y = e }
	Anchor string
	Assign []GhostAssign
}
type AnchoredClause struct {
	Anchor string
	Assume bool
	C      Clause
}
type GhostAssign struct {
	LHS Expr
	RHS Expr
}

type FuncSpec struct {
	Key      string
	Pkg      string // short package the spec was declared in (for name resolution)
	File     string
	Kind     string // func | extern | iface | fieldfunc
	Requires []Clause
	Ensures  []Clause
	Assigns  []Expr
	HasAssigns bool
	Loops    map[int]*LoopSpec
	Props    []string
	Safety   []string
	Inline   bool
	Trusted  bool
	Pure     bool
	Params   []string // optional explicit parameter names (extern/iface/fieldfunc)
	Results  []string
	Ghost    []GhostBlock
	Notes    []string
	Havoc    bool // contract-less: havoc everything
	Asserts  []AnchoredClause
	Uses     []string // axioms of other packages visible here: "pkg.label"
	Implements string // interface method whose contract this function must satisfy (refinement by identity)
	PerSite  map[string]bool // ensures labels checked at every return site separately (before the states are merged)
	Barriers []string // names of function-typed variables every call of which must sit alone behind a recover barrier
	BarrierProps []string
}

type Pred struct {
	Name   string
	Pkg    string
	Params []QVar
	Body   Expr
	Text   string
}

type Monitor struct {
	Pkg      string
	Struct   string   // struct type name
	Mutex    string   // field name
	Fields   []string // protected fields
	Inv      []Clause // monitor invariant clauses over `self`
	LockGhost   []GhostAssign // ghost code run by every Lock of this monitor (after the invariant is assumed)
	UnlockGhost []GhostAssign // ghost code run by every Unlock (before the invariant is checked)
}

type Specs struct {
	Funcs    map[string]*FuncSpec
	Preds    map[string]*Pred     // key: pkg + "." + name, and bare name fallback
	Monitors []*Monitor
	Ghosts   map[string]string    // ghost component name -> sort spec
	GhostLocal map[string]bool
	Axioms   []Clause
	Files    []string
}

var labelRe = regexp.MustCompile(`^([A-Za-z_][A-Za-z0-9_\-]*):\s+`)
var propRe = regexp.MustCompile(`//\s*prop\s+((?:C[0-9]+\s*)+)`)

var specKeywords = map[string]bool{
	"package": true, "func": true, "extern": true, "iface": true, "fieldfunc": true, "paramfunc": true,
	"requires": true, "ensures": true, "assigns": true, "loop": true, "invariant": true,
	"decreases": true, "pred": true, "props": true, "safety": true, "inline": true,
	"trusted": true, "pure": true, "protected": true, "moninv": true, "ghost": true,
	"axiom": true, "note": true, "params": true, "results": true, "at": true, "havoc": true,
	"unroll": true, "implements": true, "uses": true, "monghost": true, "persite": true, "carried": true, "barrier": true,
}

func loadSpecs(files []string) (*Specs, error) {
	sp := &Specs{Funcs: map[string]*FuncSpec{}, Preds: map[string]*Pred{}, Ghosts: map[string]string{}, GhostLocal: map[string]bool{}}
	for _, f := range files {
		if err := sp.loadFile(f); err != nil {
			return nil, err
		}
		sp.Files = append(sp.Files, f)
	}
	return sp, nil
}

// specFiles finds contract files: contracts_verif.go in the repo and *.spec under /verif/contracts/trusted.
func specFiles(repo, verif string) []string {
	var out []string
	filepath.Walk(repo, func(path string, info os.FileInfo, err error) error {
		if err != nil {
			return nil
		}
		if info.IsDir() && (info.Name() == ".git" || info.Name() == "vendor") {
			return filepath.SkipDir
		}
		if !info.IsDir() && info.Name() == "contracts_verif.go" {
			out = append(out, path)
		}
		return nil
	})
	tr, _ := filepath.Glob(filepath.Join(verif, "contracts", "trusted", "*.spec"))
	out = append(out, tr...)
	sort.Strings(out)
	return out
}

type rawDirective struct {
	kw   string
	text string
	line int
}

func (sp *Specs) loadFile(path string) error {
	data, err := os.ReadFile(path)
	if err != nil {
		return err
	}
	pkg := ""
	if strings.HasSuffix(path, ".go") {
		rel, err := filepath.Rel(repoDir, filepath.Dir(path))
		if err == nil {
			if rel == "." {
				pkg = "nbio"
			} else {
				pkg = filepath.ToSlash(rel)
			}
		}
	}
	var dirs []rawDirective
	for i, line := range strings.Split(string(data), "\n") {
		t := strings.TrimSpace(line)
		if !strings.HasPrefix(t, "//@") {
			continue
		}
		t = strings.TrimSpace(t[3:])
		if t == "" {
			continue
		}
		first := t
		if j := strings.IndexAny(t, " \t"); j >= 0 {
			first = t[:j]
		}
		if specKeywords[first] {
			dirs = append(dirs, rawDirective{first, strings.TrimSpace(t[len(first):]), i + 1})
		} else if len(dirs) > 0 {
			dirs[len(dirs)-1].text += " " + t
		} else {
			return fmt.Errorf("%s:%d: continuation without directive", path, i+1)
		}
	}
	var cur *FuncSpec
	var fileUses []string
	var curLoop *LoopSpec
	var curMon *Monitor
	fail := func(d rawDirective, f string, a ...interface{}) error {
		return fmt.Errorf("%s:%d: %s", path, d.line, fmt.Sprintf(f, a...))
	}
	clause := func(d rawDirective) (Clause, error) {
		text := d.text
		var props []string
		if m := propRe.FindStringSubmatchIndex(text); m != nil {
			props = strings.Fields(text[m[2]:m[3]])
			text = strings.TrimSpace(text[:m[0]])
		} else if k := strings.Index(text, "//"); k >= 0 {
			text = strings.TrimSpace(text[:k])
		}
		label := ""
		if m := labelRe.FindStringSubmatch(text); m != nil && !strings.HasPrefix(text[len(m[1]):], "::") {
			label = m[1]
			text = text[len(m[0]):]
		}
		e, err := parseExpr(text)
		if err != nil {
			return Clause{}, fail(d, "%v", err)
		}
		return Clause{Label: label, E: e, Props: props, Text: text}, nil
	}
	stripComment := func(s string) string {
		if k := strings.Index(s, "//"); k >= 0 {
			return strings.TrimSpace(s[:k])
		}
		return s
	}
	for _, d := range dirs {
		switch d.kw {
		case "package":
			pkg = stripComment(d.text)
		case "func", "extern", "iface", "fieldfunc", "paramfunc":
			name := stripComment(d.text)
			key := name
			if d.kw == "func" {
				key = pkg + "." + name
			}
			if d.kw == "iface" {
				key = "iface:" + name
			}
			if d.kw == "fieldfunc" {
				key = "field:" + name
			}
			if d.kw == "paramfunc" {
				// paramfunc <function>.<parameter or captured variable>: contract of calls through it inside that function
				key = "param:" + pkg + "." + name
			}
			if _, dup := sp.Funcs[key]; dup {
				return fail(d, "duplicate spec for %s", key)
			}
			cur = &FuncSpec{Key: key, Pkg: pkg, File: path, Kind: d.kw, Loops: map[int]*LoopSpec{}, Uses: fileUses}
			if d.kw != "func" {
				cur.Trusted = true
			}
			sp.Funcs[key] = cur
			curLoop = nil
			curMon = nil
		case "requires", "ensures":
			if cur == nil {
				return fail(d, "%s outside func", d.kw)
			}
			c, err := clause(d)
			if err != nil {
				return err
			}
			if d.kw == "requires" {
				cur.Requires = append(cur.Requires, c)
			} else {
				cur.Ensures = append(cur.Ensures, c)
			}
		case "assigns":
			if cur == nil {
				return fail(d, "assigns outside func")
			}
			cur.HasAssigns = true
			txt := stripComment(d.text)
			if txt != "" && txt != "nothing" {
				for _, part := range splitTop(txt, ',') {
					e, err := parseExpr(part)
					if err != nil {
						return fail(d, "%v", err)
					}
					cur.Assigns = append(cur.Assigns, e)
				}
			}
		case "loop":
			if cur == nil {
				return fail(d, "loop outside func")
			}
			n, err := strconv.Atoi(stripComment(d.text))
			if err != nil {
				return fail(d, "loop needs an ordinal")
			}
			curLoop = &LoopSpec{}
			cur.Loops[n] = curLoop
		case "invariant":
			if curLoop == nil {
				return fail(d, "invariant outside loop")
			}
			c, err := clause(d)
			if err != nil {
				return err
			}
			curLoop.Invariants = append(curLoop.Invariants, c)
		case "carried":
			if curLoop == nil {
				return fail(d, "carried outside loop")
			}
			curLoop.HasCarried = true
			curLoop.Carried = append(curLoop.Carried, strings.Fields(stripComment(d.text))...)
			if m := propRe.FindStringSubmatch(d.text); m != nil {
				curLoop.CarriedProps = strings.Fields(m[1])
			}
		case "decreases":
			if curLoop == nil {
				return fail(d, "decreases outside loop")
			}
			e, err := parseExpr(stripComment(d.text))
			if err != nil {
				return fail(d, "%v", err)
			}
			curLoop.Decreases = e
		case "unroll":
			if curLoop == nil {
				return fail(d, "unroll outside loop")
			}
			n, err := strconv.Atoi(stripComment(d.text))
			if err != nil {
				return fail(d, "unroll needs a count")
			}
			curLoop.Unroll = n
		case "props":
			if cur == nil {
				return fail(d, "props outside func")
			}
			cur.Props = append(cur.Props, strings.Fields(stripComment(d.text))...)
		case "safety":
			if cur == nil {
				return fail(d, "safety outside func")
			}
			cur.Safety = append(cur.Safety, strings.Fields(stripComment(d.text))...)
		case "inline":
			cur.Inline = true
		case "barrier":
			cur.Barriers = append(cur.Barriers, strings.Fields(stripComment(d.text))...)
			if m := propRe.FindStringSubmatch(d.text); m != nil {
				cur.BarrierProps = strings.Fields(m[1])
			}
		case "persite":
			if cur.PerSite == nil {
				cur.PerSite = map[string]bool{}
			}
			for _, f := range strings.Fields(stripComment(d.text)) {
				cur.PerSite[f] = true
			}
		case "trusted":
			cur.Trusted = true
		case "pure":
			cur.Pure = true
		case "havoc":
			cur.Havoc = true
		case "implements":
			cur.Implements = stripComment(d.text)
		case "uses":
			fileUses = append(fileUses, strings.Fields(strings.ReplaceAll(stripComment(d.text), ",", " "))...)
		case "note":
			if cur != nil {
				cur.Notes = append(cur.Notes, d.text)
			}
		case "params":
			cur.Params = strings.Fields(strings.ReplaceAll(stripComment(d.text), ",", " "))
		case "results":
			cur.Results = strings.Fields(strings.ReplaceAll(stripComment(d.text), ",", " "))
		case "pred":
			// pred Name(a T, b U) := body
			txt := d.text
			k := strings.Index(txt, ":=")
			if k < 0 {
				return fail(d, "pred needs :=")
			}
			head := strings.TrimSpace(txt[:k])
			bodyTxt := strings.TrimSpace(txt[k+2:])
			op := strings.Index(head, "(")
			cp := strings.LastIndex(head, ")")
			if op < 0 || cp < op {
				return fail(d, "pred needs a parameter list")
			}
			p := &Pred{Name: strings.TrimSpace(head[:op]), Pkg: pkg, Text: bodyTxt}
			for _, prm := range splitTop(head[op+1:cp], ',') {
				prm = strings.TrimSpace(prm)
				if prm == "" {
					continue
				}
				fs := strings.SplitN(prm, " ", 2)
				qv := QVar{Name: fs[0]}
				if len(fs) > 1 {
					qv.Type = strings.TrimSpace(fs[1])
				}
				p.Params = append(p.Params, qv)
			}
			if kk := strings.Index(bodyTxt, "//"); kk >= 0 {
				bodyTxt = bodyTxt[:kk]
			}
			e, err := parseExpr(bodyTxt)
			if err != nil {
				return fail(d, "%v", err)
			}
			p.Body = e
			sp.Preds[pkg+"."+p.Name] = p
			if _, ok := sp.Preds[p.Name]; !ok {
				sp.Preds[p.Name] = p
			}
		case "protected":
			// protected Conn by mux: left, writeList, closed
			txt := stripComment(d.text)
			re := regexp.MustCompile(`^(\w+)\s+by\s+(\w+)\s*:\s*(.*)$`)
			m := re.FindStringSubmatch(txt)
			if m == nil {
				return fail(d, "protected <Struct> by <mutex>: fields")
			}
			curMon = &Monitor{Pkg: pkg, Struct: m[1], Mutex: m[2]}
			for _, f := range strings.Split(m[3], ",") {
				if f = strings.TrimSpace(f); f != "" {
					curMon.Fields = append(curMon.Fields, f)
				}
			}
			sp.Monitors = append(sp.Monitors, curMon)
			cur = nil
		case "moninv":
			if curMon == nil {
				return fail(d, "moninv outside protected")
			}
			c, err := clause(d)
			if err != nil {
				return err
			}
			curMon.Inv = append(curMon.Inv, c)
		case "monghost":
			// monghost lock { a = b; ... }   /   monghost unlock { ... }
			if curMon == nil {
				return fail(d, "monghost outside protected")
			}
			txt := stripComment(d.text)
			ob := strings.Index(txt, "{")
			cb := strings.LastIndex(txt, "}")
			if ob < 0 || cb < ob {
				return fail(d, "monghost lock|unlock { ... }")
			}
			which := strings.TrimSpace(txt[:ob])
			var gas []GhostAssign
			for _, st := range splitTop(txt[ob+1:cb], ';') {
				st = strings.TrimSpace(st)
				if st == "" {
					continue
				}
				k := indexTopAssign(st)
				if k < 0 {
					return fail(d, "ghost statement must be an assignment: %q", st)
				}
				l, err := parseExpr(st[:k])
				if err != nil {
					return fail(d, "%v", err)
				}
				rr, err := parseExpr(st[k+1:])
				if err != nil {
					return fail(d, "%v", err)
				}
				gas = append(gas, GhostAssign{l, rr})
			}
			switch which {
			case "lock":
				curMon.LockGhost = append(curMon.LockGhost, gas...)
			case "unlock":
				curMon.UnlockGhost = append(curMon.UnlockGhost, gas...)
			default:
				return fail(d, "monghost lock|unlock")
			}
		case "ghost":
			// ghost name : sort      (component declaration)   e.g. ghost live : (Array Int Bool)
			txt := stripComment(d.text)
			k := strings.Index(txt, ":")
			if k < 0 {
				return fail(d, "ghost name : sort")
			}
			name := strings.TrimSpace(txt[:k])
			if strings.HasPrefix(name, "local ") {
				// thread-local ghost: knowledge of the executing thread, never changed behind its back
				name = strings.TrimSpace(strings.TrimPrefix(name, "local "))
				sp.GhostLocal[name] = true
			}
			sp.Ghosts[name] = strings.TrimSpace(txt[k+1:])
		case "axiom":
			c, err := clause(d)
			if err != nil {
				return err
			}
			c.Pkg = pkg
			sp.Axioms = append(sp.Axioms, c)
		case "at":
			// at unlock#2 ghost { a = b; c = d }
			if cur == nil {
				return fail(d, "at outside func")
			}
			if f := strings.Fields(d.text); len(f) >= 2 && (f[1] == "assert" || f[1] == "assume") {
				// at <anchor> assert label: expr   // prop Cxx
				rest := strings.TrimSpace(strings.TrimPrefix(strings.TrimSpace(strings.TrimPrefix(d.text, f[0])), f[1]))
				c, err := clause(rawDirective{kw: f[1], text: rest, line: d.line})
				if err != nil {
					return err
				}
				cur.Asserts = append(cur.Asserts, AnchoredClause{Anchor: f[0], Assume: f[1] == "assume", C: c})
				continue
			}
			txt := stripComment(d.text)
			ob := strings.Index(txt, "{")
			cb := strings.LastIndex(txt, "}")
			if ob < 0 || cb < ob {
				return fail(d, "at <anchor> ghost { ... }")
			}
			head := strings.Fields(txt[:ob])
			if len(head) < 1 {
				return fail(d, "at needs an anchor")
			}
			gb := GhostBlock{Anchor: head[0]}
			for _, st := range splitTop(txt[ob+1:cb], ';') {
				st = strings.TrimSpace(st)
				if st == "" {
					continue
				}
				k := indexTopAssign(st)
				if k < 0 {
					return fail(d, "ghost statement must be an assignment: %q", st)
				}
				l, err := parseExpr(st[:k])
				if err != nil {
					return fail(d, "%v", err)
				}
				r, err := parseExpr(st[k+1:])
				if err != nil {
					return fail(d, "%v", err)
				}
				gb.Assign = append(gb.Assign, GhostAssign{l, r})
			}
			cur.Ghost = append(cur.Ghost, gb)
		}
	}
	return nil
}

// indexTopAssign finds a single '=' that is not part of ==, !=, <=, >=, ==>.
func indexTopAssign(s string) int {
	for i := 0; i < len(s); i++ {
		if s[i] != '=' {
			continue
		}
		if i+1 < len(s) && s[i+1] == '=' {
			i++
			for i+1 < len(s) && (s[i+1] == '=' || s[i+1] == '>') {
				i++
			}
			continue
		}
		if i > 0 && strings.ContainsRune("!<>=", rune(s[i-1])) {
			continue
		}
		return i
	}
	return -1
}

func splitTop(s string, sep byte) []string {
	var out []string
	depth := 0
	start := 0
	inStr := false
	for i := 0; i < len(s); i++ {
		c := s[i]
		if inStr {
			if c == '\\' {
				i++
			} else if c == '"' {
				inStr = false
			}
			continue
		}
		switch c {
		case '"':
			inStr = true
		case '(', '[', '{':
			depth++
		case ')', ']', '}':
			depth--
		default:
			if c == sep && depth == 0 {
				out = append(out, s[start:i])
				start = i + 1
			}
		}
	}
	out = append(out, s[start:])
	return out
}
