package main

import (
	"fmt"
	"go/token"
	"go/types"
	"math/big"
	"strings"

	"golang.org/x/tools/go/ssa"
)

// execInstr executes one instruction; returns the (possibly updated) reach condition and whether the block ended.
func (r *Run) execInstr(fr *Frame, st *State, reach Term, ins ssa.Instruction, out *blockOut) (Term, bool) {
	switch ins := ins.(type) {
	case *ssa.DebugRef:
		return reach, false
	case *ssa.Alloc:
		el := allocElem(ins)
		if isCellAlloc(ins) {
			l := &Loc{Kind: LCell, Cell: cellKey{fr.id, ins}, Typ: el}
			st.cells[l.Cell] = termVal(zeroOf(el), el)
			fr.regs[ins] = locVal(l, ins.Type())
			return reach, false
		}
		ref := r.freshRef(st, ins.Comment)
		v := termVal(ref, ins.Type())
		fr.regs[ins] = v
		r.zeroInit(st, v, el)
		switch el.Underlying().(type) {
		case *types.Struct, *types.Array:
		default:
			if ins.Comment != "" && ins.Comment != "varargs" {
				// a named local whose address is taken or that a closure captures
				bc, _ := r.boxComp(el)
				r.localBoxes = append(r.localBoxes, localBox{bc, ref})
			}
		}
		return reach, false
	case *ssa.Store:
		addr := r.operand(fr, st, ins.Addr)
		val := r.operand(fr, st, ins.Val)
		l := r.derefLoc(addr)
		if l == nil {
			r.warn("store through unsupported address in %s", funcKey(fr.fn))
			r.havocAll(st, reach)
			return reach, false
		}
		r.nilCheck(fr, addr, reach, ins.Pos(), "store")
		if _, isStruct := l.Typ.Underlying().(*types.Struct); isStruct && l.Kind == LComp && !strings.HasPrefix(l.Comp, "B.") {
			r.copyStruct(st, l, val)
			return reach, false
		}
		if _, isArr := l.Typ.Underlying().(*types.Array); isArr && l.Kind == LElem && val.Kind == VTerm && val.T.Sort == SInt {
			// whole-array assignment: array values are references to rows of the element memory
			m := r.heapGet(st, l.Comp)
			r.heapSet(st, l.Comp, r.ctx.Define("h."+l.Comp, Store(m, l.Base, Select(m, val.T))))
			return reach, false
		}
		r.protectedAccess(fr, st, reach, l, ins.Pos(), true)
		r.store(st, l, val)
		return reach, false
	case *ssa.UnOp:
		fr.regs[ins] = r.unop(fr, st, reach, ins)
		return reach, false
	case *ssa.BinOp:
		fr.regs[ins] = r.binop(fr, st, reach, ins)
		return reach, false
	case *ssa.FieldAddr:
		base := r.operand(fr, st, ins.X)
		r.nilCheck(fr, base, reach, ins.Pos(), "field")
		l := r.fieldLoc(base, ins.Field)
		if l == nil {
			r.warn("unsupported FieldAddr base in %s", funcKey(fr.fn))
			fr.regs[ins] = r.freshTyped("fieldaddr", ins.Type(), st)
			return reach, false
		}
		fr.regs[ins] = locVal(l, ins.Type())
		return reach, false
	case *ssa.Field:
		// field of a struct value (register holding a struct ref)
		base := r.operand(fr, st, ins.X)
		if base.Kind == VTerm {
			pv := termVal(base.T, types.NewPointer(ins.X.Type()))
			if l := r.fieldLoc(pv, ins.Field); l != nil {
				fr.regs[ins] = r.loadTyped(st, l)
				return reach, false
			}
		}
		fr.regs[ins] = r.freshTyped("field", ins.Type(), st)
		return reach, false
	case *ssa.IndexAddr:
		fr.regs[ins] = r.indexAddr(fr, st, reach, ins)
		return reach, false
	case *ssa.Index:
		x := r.operand(fr, st, ins.X)
		i := r.mustTerm(r.operand(fr, st, ins.Index), "index")
		if x.Kind == VTerm && x.T.Sort == SStr {
			r.safety(fr, "index", reach, And(Le(mkInt(0), i), Lt(i, app(SInt, "str.len_", x.T))), ins.Pos(), "string index")
			b := app(SInt, "str.at_", x.T, i)
			r.ctx.Assert(And(Le(mkInt(0), b), Le(b, mkInt(255))))
			fr.regs[ins] = termVal(b, ins.Type())
			return reach, false
		}
		fr.regs[ins] = r.freshTyped("index", ins.Type(), st)
		return reach, false
	case *ssa.Slice:
		fr.regs[ins] = r.sliceOp(fr, st, reach, ins)
		return reach, false
	case *ssa.MakeSlice:
		ln := r.mustTerm(r.operand(fr, st, ins.Len), "len")
		cp := r.mustTerm(r.operand(fr, st, ins.Cap), "cap")
		r.safety(fr, "make", reach, And(Le(mkInt(0), ln), Le(ln, cp)), ins.Pos(), "make([]T, len, cap)")
		ref := r.freshRef(st, "make")
		et := ins.Type().Underlying().(*types.Slice).Elem()
		comp, srt := r.elemComp(et)
		m := r.heapGet(st, comp)
		zero := Term{fmt.Sprintf("((as const %s) %s)", arraySort(SInt, srt), zeroOf(et).S), arraySort(SInt, srt)}
		r.heapSet(st, comp, r.ctx.Define("h."+comp, Store(m, ref, zero)))
		fr.regs[ins] = termVal(mkSlice(ref, mkInt(0), ln, cp), ins.Type())
		return reach, false
	case *ssa.MakeMap:
		ref := r.freshRef(st, "map")
		m := ins.Type().Underlying().(*types.Map)
		hasc, _ := r.mapComps(m)
		lenc := r.mapLenComp(m)
		hs := r.compSort(hasc)
		empty := Term{fmt.Sprintf("((as const %s) false)", arrayValSort(hs)), arrayValSort(hs)}
		r.heapSet(st, hasc, Store(r.heapGet(st, hasc), ref, empty))
		r.heapSet(st, lenc, Store(r.heapGet(st, lenc), ref, mkInt(0)))
		fr.regs[ins] = termVal(ref, ins.Type())
		return reach, false
	case *ssa.MakeChan:
		fr.regs[ins] = termVal(r.freshRef(st, "chan"), ins.Type())
		return reach, false
	case *ssa.MakeClosure:
		var binds []Val
		for _, b := range ins.Bindings {
			binds = append(binds, r.operand(fr, st, b))
		}
		fr.regs[ins] = Val{Kind: VFunc, Fn: ins.Fn.(*ssa.Function), Bind: binds, Typ: ins.Type()}
		return reach, false
	case *ssa.MakeInterface:
		x := r.operand(fr, st, ins.X)
		fr.regs[ins] = termVal(r.makeIface(x, ins.X.Type()), ins.Type())
		return reach, false
	case *ssa.ChangeInterface:
		fr.regs[ins] = r.retype(r.operand(fr, st, ins.X), ins.Type())
		return reach, false
	case *ssa.ChangeType:
		fr.regs[ins] = r.retype(r.operand(fr, st, ins.X), ins.Type())
		return reach, false
	case *ssa.Convert:
		fr.regs[ins] = r.convert(fr, st, ins)
		return reach, false
	case *ssa.MultiConvert:
		fr.regs[ins] = r.freshTyped("multiconvert", ins.Type(), st)
		return reach, false
	case *ssa.SliceToArrayPointer:
		fr.regs[ins] = r.freshTyped("s2a", ins.Type(), st)
		r.warn("SliceToArrayPointer unmodelled")
		return reach, false
	case *ssa.TypeAssert:
		fr.regs[ins] = r.typeAssert(fr, st, reach, ins)
		return reach, false
	case *ssa.Extract:
		t := r.operand(fr, st, ins.Tuple)
		if t.Kind == VTuple && ins.Index < len(t.Tup) {
			fr.regs[ins] = t.Tup[ins.Index]
		} else {
			fr.regs[ins] = r.freshTyped("extract", ins.Type(), st)
		}
		return reach, false
	case *ssa.Lookup:
		fr.regs[ins] = r.lookup(fr, st, reach, ins)
		return reach, false
	case *ssa.MapUpdate:
		r.mapUpdate(fr, st, reach, ins)
		return reach, false
	case *ssa.Range:
		x := r.operand(fr, st, ins.X)
		fr.regs[ins] = Val{Kind: VTuple, Tup: []Val{x}, Typ: ins.Type()}
		return reach, false
	case *ssa.Next:
		fr.regs[ins] = r.next(fr, st, ins)
		return reach, false
	case *ssa.Select:
		v := r.freshTyped("select", ins.Type(), st)
		if v.Kind == VTuple && len(v.Tup) > 0 && v.Tup[0].Kind == VTerm {
			// the index of the case that fired: one of the states, or -1 (default) when non-blocking
			idx := v.Tup[0].T
			lo := mkInt(0)
			if !ins.Blocking {
				lo = mkInt(-1)
			}
			r.ctx.Assert(And(Le(lo, idx), Lt(idx, mkInt(int64(len(ins.States))))))
		}
		fr.regs[ins] = v
		return reach, false
	case *ssa.Send:
		return reach, false
	case *ssa.Go:
		// the spawned function is verified on its own; its precondition is an obligation where it is started
		ord := 0
		n := 0
		for _, b := range ins.Parent().Blocks {
			for _, x := range b.Instrs {
				if g, ok := x.(*ssa.Go); ok {
					if g.Pos() <= ins.Pos() {
						n++
					}
				}
			}
		}
		ord = n
		r.ghostAt(fr, st, reach, fmt.Sprintf("before:go#%d", ord), ins)
		fv := r.operand(fr, st, ins.Call.Value)
		if fv.Kind == VFunc && fv.Fn != nil && fv.Fn.Parent() != nil {
			r.spawnObligations(fr, st, reach, fv, ins)
		}
		r.ghostAt(fr, st, reach, fmt.Sprintf("go#%d", ord), ins)
		return reach, false
	case *ssa.Defer:
		ent := DeferEntry{guard: tTrue, instr: ins, frame: fr}
		if !ins.Call.IsInvoke() {
			ent.fn = r.operand(fr, st, ins.Call.Value)
		} else {
			ent.fn = r.operand(fr, st, ins.Call.Value)
		}
		for _, a := range ins.Call.Args {
			ent.args = append(ent.args, r.operand(fr, st, a))
		}
		st.defers = append(st.defers, ent)
		return reach, false
	case *ssa.RunDefers:
		return r.runDefers(fr, st, reach), false
	case *ssa.Call:
		v, nr := r.execCall(fr, st, reach, &ins.Call, ins, nil)
		fr.regs[ins] = v
		return nr, false
	case *ssa.Jump:
		return reach, false
	case *ssa.If:
		c := r.mustTerm(r.operand(fr, st, ins.Cond), "if cond")
		out.cond = r.ctx.Define("c", c)
		out.isIf = true
		if !out.cond.IsTrue() && !out.cond.IsFalse() {
			r.conds = append(r.conds, out.cond)
			r.condReach = append(r.condReach, r.ctx.Define("cr", reach))
			r.condMark = append(r.condMark, r.ctx.Mark())
			r.condPos = append(r.condPos, r.posString(ins.Cond.Pos())+" "+trunc(ins.Cond.String(), 40))
		}
		return reach, false
	case *ssa.Return:
		var vals []Val
		for _, x := range ins.Results {
			vals = append(vals, r.operand(fr, st, x))
		}
		fr.rets = append(fr.rets, retPoint{reach: reach, st: st, vals: vals, pos: ins.Pos()})
		return reach, true
	case *ssa.Panic:
		r.safety(fr, "panic", reach, tFalse, ins.Pos(), "explicit panic reachable")
		return reach, true
	}
	r.warn("unhandled instruction %T", ins)
	if v, ok := ins.(ssa.Value); ok {
		fr.regs[v] = r.freshTyped("unhandled", v.Type(), st)
	}
	return reach, false
}

func (r *Run) retype(v Val, t types.Type) Val {
	v.Typ = t
	return v
}

func (r *Run) loadTyped(st *State, l *Loc) Val {
	v := r.load(st, l)
	if v.Kind == VTerm && l.Kind != LCell {
		v.Src = l.Comp
		if l.Typ != nil {
			v.Typ = l.Typ
			wt := r.wellTyped(v.T, l.Typ, st)
			if !wt.IsTrue() {
				t := r.ctx.Define("ld", v.T)
				v.T = t
				r.ctx.Assert(r.wellTyped(t, l.Typ, st))
			}
		}
	}
	return v
}

// zeroInit initialises freshly allocated storage.
func (r *Run) zeroInit(st *State, ptr Val, el types.Type) {
	switch u := el.Underlying().(type) {
	case *types.Struct:
		for i := 0; i < u.NumFields(); i++ {
			l := r.fieldLoc(ptr, i)
			if l == nil {
				continue
			}
			ft := u.Field(i).Type()
			switch ft.Underlying().(type) {
			case *types.Struct:
				r.zeroInit(st, locVal(l, types.NewPointer(ft)), ft)
			case *types.Array:
				if l.Kind == LElem {
					r.zeroInit(st, termVal(l.Base, types.NewPointer(ft)), ft)
				}
			default:
				r.store(st, l, termVal(zeroOf(ft), ft))
			}
		}
	case *types.Array:
		comp, srt := r.elemComp(u.Elem())
		m := r.heapGet(st, comp)
		zero := Term{fmt.Sprintf("((as const %s) %s)", arraySort(SInt, srt), zeroOf(u.Elem()).S), arraySort(SInt, srt)}
		r.heapSet(st, comp, r.ctx.Define("h."+comp, Store(m, ptr.T, zero)))
	default:
		l := r.derefLoc(ptr)
		if l != nil {
			r.store(st, l, termVal(zeroOf(el), el))
		}
	}
}

// copyStruct: *dst = structValue (struct values are refs to their storage)
func (r *Run) copyStruct(st *State, dst *Loc, val Val) {
	u := dst.Typ.Underlying().(*types.Struct)
	dptr := locVal(dst, types.NewPointer(dst.Typ))
	var sptr Val
	hasSrc := false
	if val.Kind == VTerm && val.T.Sort == SInt {
		sptr = termVal(val.T, types.NewPointer(dst.Typ))
		hasSrc = true
	}
	for i := 0; i < u.NumFields(); i++ {
		dl := r.fieldLoc(dptr, i)
		if dl == nil {
			continue
		}
		ft := u.Field(i).Type()
		if _, nested := ft.Underlying().(*types.Struct); nested {
			var sv Val
			if hasSrc {
				if sl := r.fieldLoc(sptr, i); sl != nil {
					sv = locVal(sl, types.NewPointer(ft))
					r.copyStructLoc(st, dl, sv)
					continue
				}
			}
			continue
		}
		if _, isArr := ft.Underlying().(*types.Array); isArr {
			var sl *Loc
			if hasSrc {
				sl = r.fieldLoc(sptr, i)
			}
			r.copyArrayLoc(st, dl, sl)
			continue
		}
		if hasSrc {
			if sl := r.fieldLoc(sptr, i); sl != nil {
				r.store(st, dl, r.load(st, sl))
				continue
			}
		}
		r.store(st, dl, r.freshTyped("structcopy", ft, st))
	}
}

func (r *Run) copyStructLoc(st *State, dst *Loc, src Val) {
	u := dst.Typ.Underlying().(*types.Struct)
	dptr := locVal(dst, types.NewPointer(dst.Typ))
	for i := 0; i < u.NumFields(); i++ {
		dl := r.fieldLoc(dptr, i)
		sl := r.fieldLoc(src, i)
		if dl == nil || sl == nil {
			continue
		}
		if _, nested := u.Field(i).Type().Underlying().(*types.Struct); nested {
			r.copyStructLoc(st, dl, locVal(sl, types.NewPointer(u.Field(i).Type())))
			continue
		}
		if _, isArr := u.Field(i).Type().Underlying().(*types.Array); isArr {
			r.copyArrayLoc(st, dl, sl)
			continue
		}
		r.store(st, dl, r.load(st, sl))
	}
}

// copyArrayLoc: whole-array assignment between two arrays stored at offset 0 of their rows (src == nil: unknown contents)
func (r *Run) copyArrayLoc(st *State, dl, sl *Loc) {
	if dl == nil || dl.Kind != LElem {
		return
	}
	m := r.heapGet(st, dl.Comp)
	var row Term
	if sl != nil && sl.Kind == LElem && sl.Comp == dl.Comp {
		row = Select(m, sl.Base)
	} else {
		row = r.ctx.Fresh("arrcopy", arraySort(SInt, dl.Sort))
	}
	r.heapSet(st, dl.Comp, r.ctx.Define("h."+dl.Comp, Store(m, dl.Base, row)))
}

func (r *Run) nilCheck(fr *Frame, ptr Val, reach Term, pos token.Pos, what string) {
	if ptr.Kind != VTerm {
		return
	}
	if _, ok := ptr.Typ.Underlying().(*types.Pointer); !ok {
		return
	}
	r.safety(fr, "nil", reach, Not(Eq(ptr.T, mkInt(0))), pos, "nil dereference ("+what+")")
}

func (r *Run) unop(fr *Frame, st *State, reach Term, ins *ssa.UnOp) Val {
	x := r.operand(fr, st, ins.X)
	switch ins.Op {
	case token.MUL: // load
		l := r.derefLoc(x)
		if l == nil {
			r.warn("load through unsupported pointer in %s", funcKey(fr.fn))
			return r.freshTyped("load", ins.Type(), st)
		}
		r.nilCheck(fr, x, reach, ins.Pos(), "load")
		if _, isStruct := l.Typ.Underlying().(*types.Struct); isStruct && l.Kind == LComp && !strings.HasPrefix(l.Comp, "B.") {
			// struct value: copy into fresh storage so later mutation of the source does not alias
			ref := r.freshRef(st, "structval")
			nv := termVal(ref, types.NewPointer(l.Typ))
			if g, ok := ins.X.(*ssa.Global); ok {
				if gv, ok := g.Object().(*types.Var); ok && r.prog.zeroGlobal(gv) {
					// a package-level struct that nothing ever writes: the zero value
					r.zeroInit(st, nv, l.Typ)
					return termVal(ref, ins.Type())
				}
			}
			r.copyStructLoc(st, r.derefLoc(nv), locVal(l, types.NewPointer(l.Typ)))
			return termVal(ref, ins.Type())
		}
		if _, isArr := l.Typ.Underlying().(*types.Array); isArr && l.Kind == LElem {
			// an array value: a new reference whose row is a copy of the source row
			ref := r.freshRef(st, "arrval")
			m := r.heapGet(st, l.Comp)
			r.heapSet(st, l.Comp, r.ctx.Define("h."+l.Comp, Store(m, ref, Select(m, l.Base))))
			return termVal(ref, ins.Type())
		}
		r.protectedAccess(fr, st, reach, l, ins.Pos(), false)
		v := r.loadTyped(st, l)
		if v.Typ == nil {
			v.Typ = ins.Type()
		}
		return v
	case token.NOT:
		return termVal(Not(r.mustTerm(x, "not")), ins.Type())
	case token.SUB:
		t := Sub(mkInt(0), r.mustTerm(x, "neg"))
		if isInteger(ins.Type()) && isUnsigned(ins.Type()) {
			t = ModC(t, pow2(intBits(ins.Type())))
		}
		return termVal(t, ins.Type())
	case token.XOR:
		t := r.mustTerm(x, "compl")
		if isUnsigned(ins.Type()) {
			_, hi := intRange(ins.Type())
			return termVal(Sub(mkBig(hi), t), ins.Type())
		}
		return termVal(Sub(mkInt(-1), t), ins.Type())
	case token.ARROW:
		return r.freshTyped("recv", ins.Type(), st)
	}
	r.warn("unop %s", ins.Op)
	return r.freshTyped("unop", ins.Type(), st)
}

func (r *Run) binop(fr *Frame, st *State, reach Term, ins *ssa.BinOp) Val {
	x := r.operand(fr, st, ins.X)
	y := r.operand(fr, st, ins.Y)
	typ := ins.Type()
	xt := ins.X.Type()
	switch ins.Op {
	case token.EQL, token.NEQ:
		a := r.mustTerm(x, "eq lhs")
		b := r.mustTerm(y, "eq rhs")
		var eq Term
		if a.Sort != b.Sort {
			r.warn("comparison across sorts %s/%s", a.Sort, b.Sort)
			eq = r.ctx.Fresh("cmp", SBool)
		} else if a.Sort == SSlice {
			// only comparison with nil is legal
			if b.S == nilSlice.S {
				eq = Eq(slBase(a), mkInt(0))
			} else {
				eq = Eq(slBase(b), mkInt(0))
			}
		} else if a.Sort == SIface {
			if b.S == nilIface.S {
				eq = Eq(ifTag(a), mkInt(0))
			} else if a.S == nilIface.S {
				eq = Eq(ifTag(b), mkInt(0))
			} else {
				eq = Eq(a, b)
			}
		} else if a.Sort == SStr {
			eq = r.strEq(a, b)
		} else {
			eq = Eq(a, b)
		}
		if ins.Op == token.NEQ {
			eq = Not(eq)
		}
		return termVal(eq, typ)
	case token.LSS, token.LEQ, token.GTR, token.GEQ:
		a := r.mustTerm(x, "cmp lhs")
		b := r.mustTerm(y, "cmp rhs")
		if a.Sort != SInt || b.Sort != SInt {
			return termVal(r.ctx.Fresh("cmp", SBool), typ)
		}
		op := map[token.Token]string{token.LSS: "<", token.LEQ: "<=", token.GTR: ">", token.GEQ: ">="}[ins.Op]
		return termVal(cmpT(op, a, b), typ)
	}
	if sortOf(typ) == SStr && ins.Op == token.ADD {
		a := r.mustTerm(x, "concat")
		b := r.mustTerm(y, "concat")
		res := r.ctx.Fresh("concat", SStr)
		r.ctx.Assert(Eq(app(SInt, "str.len_", res), Add(app(SInt, "str.len_", a), app(SInt, "str.len_", b))))
		return termVal(res, typ)
	}
	if !isInteger(typ) {
		return r.freshTyped("binop", typ, st)
	}
	a := r.mustTerm(x, "arith lhs")
	b := r.mustTerm(y, "arith rhs")
	bits := intBits(typ)
	uns := isUnsigned(typ)
	_ = xt
	var t Term
	switch ins.Op {
	case token.ADD, token.SUB, token.MUL:
		op := map[token.Token]string{token.ADD: "+", token.SUB: "-", token.MUL: "*"}[ins.Op]
		t = arith(op, a, b)
		if uns {
			t = ModC(t, pow2(bits))
		} else {
			lo, hi := intRange(typ)
			if r.spec != nil && r.arithChecked() {
				r.safety(fr, "ovf", reach, And(Le(mkBig(lo), t), Le(t, mkBig(hi))), ins.Pos(), "signed overflow in "+ins.String())
			} else {
				r.arithAssumed = true
			}
		}
	case token.QUO, token.REM:
		r.safety(fr, "div", reach, Not(Eq(b, mkInt(0))), ins.Pos(), "division by zero")
		// Go truncates toward zero; SMT div is euclidean. Equal for a >= 0 && b > 0.
		q := app(SInt, "div", a, b)
		rem := app(SInt, "mod", a, b)
		if lb, ok := intLit(b); !(uns || (ok && lb.Sign() > 0 && false)) {
			// general signed case via abs
			absA := Ite(Ge(a, mkInt(0)), a, Sub(mkInt(0), a))
			absB := Ite(Ge(b, mkInt(0)), b, Sub(mkInt(0), b))
			qa := app(SInt, "div", absA, absB)
			sameSign := Eq(Ge(a, mkInt(0)), Ge(b, mkInt(0)))
			q = Ite(sameSign, qa, Sub(mkInt(0), qa))
			rm := app(SInt, "mod", absA, absB)
			rem = Ite(Ge(a, mkInt(0)), rm, Sub(mkInt(0), rm))
		}
		if ins.Op == token.QUO {
			t = q
		} else {
			t = rem
		}
	case token.AND, token.OR, token.XOR, token.AND_NOT:
		op := map[token.Token]string{token.AND: "&", token.OR: "|", token.XOR: "^", token.AND_NOT: "&^"}[ins.Op]
		t = r.bitop(op, a, b, bits, uns)
	case token.SHL, token.SHR:
		op := "<<"
		if ins.Op == token.SHR {
			op = ">>"
		}
		t = r.bitop(op, a, b, bits, uns)
	default:
		r.warn("binop %s", ins.Op)
		return r.freshTyped("binop", typ, st)
	}
	return termVal(r.ctx.Define("a", t), typ)
}

func (r *Run) arithChecked() bool {
	for _, s := range r.spec.Safety {
		if s == "ovf" {
			return true
		}
	}
	return false
}

func (r *Run) strEq(a, b Term) Term {
	if a.S == b.S {
		return tTrue
	}
	// literal ids decide equality between literals; otherwise structural equality of the abstract values
	return Eq(a, b)
}

func (r *Run) indexAddr(fr *Frame, st *State, reach Term, ins *ssa.IndexAddr) Val {
	x := r.operand(fr, st, ins.X)
	i := r.mustTerm(r.operand(fr, st, ins.Index), "index")
	switch t := ins.X.Type().Underlying().(type) {
	case *types.Slice:
		s := r.mustTerm(x, "slice")
		r.safety(fr, "index", reach, And(Le(mkInt(0), i), Lt(i, slLen(s))), ins.Pos(), "index out of range")
		comp, srt := r.elemComp(t.Elem())
		return locVal(&Loc{Kind: LElem, Comp: comp, Sort: srt, Base: slBase(s), Off: Add(slOff(s), i), Typ: t.Elem()}, ins.Type())
	case *types.Pointer:
		arr, ok := t.Elem().Underlying().(*types.Array)
		if !ok {
			break
		}
		r.safety(fr, "index", reach, And(Le(mkInt(0), i), Lt(i, mkInt(arr.Len()))), ins.Pos(), "array index out of range")
		l := r.derefLoc(x)
		if l == nil || l.Kind != LElem {
			break
		}
		return locVal(&Loc{Kind: LElem, Comp: l.Comp, Sort: l.Sort, Base: l.Base, Off: Add(l.Off, i), Typ: arr.Elem()}, ins.Type())
	}
	r.warn("unsupported IndexAddr on %s", ins.X.Type())
	return r.freshTyped("indexaddr", ins.Type(), st)
}

func (r *Run) sliceOp(fr *Frame, st *State, reach Term, ins *ssa.Slice) Val {
	x := r.operand(fr, st, ins.X)
	var lo, hi, mx Term
	hasLo, hasHi, hasMax := ins.Low != nil, ins.High != nil, ins.Max != nil
	if hasLo {
		lo = r.mustTerm(r.operand(fr, st, ins.Low), "lo")
	} else {
		lo = mkInt(0)
	}
	if hasHi {
		hi = r.mustTerm(r.operand(fr, st, ins.High), "hi")
	}
	if hasMax {
		mx = r.mustTerm(r.operand(fr, st, ins.Max), "max")
	}
	switch t := ins.X.Type().Underlying().(type) {
	case *types.Slice:
		s := r.mustTerm(x, "slice")
		if !hasHi {
			hi = slLen(s)
		}
		capT := slCap(s)
		if hasMax {
			r.safety(fr, "slice", reach, And(Le(mkInt(0), lo), Le(lo, hi), Le(hi, mx), Le(mx, capT)), ins.Pos(), "slice bounds (3-index)")
			return termVal(r.ctx.Define("sl", mkSlice(slBase(s), Add(slOff(s), lo), Sub(hi, lo), Sub(mx, lo))), ins.Type())
		}
		r.safety(fr, "slice", reach, And(Le(mkInt(0), lo), Le(lo, hi), Le(hi, capT)), ins.Pos(), "slice bounds out of range")
		return termVal(r.ctx.Define("sl", mkSlice(slBase(s), Add(slOff(s), lo), Sub(hi, lo), Sub(capT, lo))), ins.Type())
	case *types.Basic: // string
		s := r.mustTerm(x, "string")
		ln := app(SInt, "str.len_", s)
		if !hasHi {
			hi = ln
		}
		r.safety(fr, "slice", reach, And(Le(mkInt(0), lo), Le(lo, hi), Le(hi, ln)), ins.Pos(), "string slice bounds")
		r.ctx.DeclareOnce("str.sub_", "(declare-fun str.sub_ (Str Int Int) Str)")
		res := app(SStr, "str.sub_", s, lo, hi)
		r.ctx.Assert(Implies(And(Le(mkInt(0), lo), Le(lo, hi)), Eq(app(SInt, "str.len_", res), Sub(hi, lo))))
		return termVal(res, ins.Type())
	case *types.Pointer:
		arr, ok := t.Elem().Underlying().(*types.Array)
		if !ok {
			break
		}
		n := mkInt(arr.Len())
		if !hasHi {
			hi = n
		}
		if !hasMax {
			mx = n
		}
		r.safety(fr, "slice", reach, And(Le(mkInt(0), lo), Le(lo, hi), Le(hi, mx), Le(mx, n)), ins.Pos(), "array slice bounds")
		l := r.derefLoc(x)
		if l == nil || l.Kind != LElem {
			break
		}
		return termVal(r.ctx.Define("sl", mkSlice(l.Base, Add(l.Off, lo), Sub(hi, lo), Sub(mx, lo))), ins.Type())
	}
	r.warn("unsupported Slice on %s", ins.X.Type())
	return r.freshTyped("slice", ins.Type(), st)
}

func (r *Run) makeIface(x Val, t types.Type) Term {
	if _, isIface := t.Underlying().(*types.Interface); isIface {
		return r.mustTerm(x, "iface")
	}
	tag := r.typeTag(t)
	xt := r.mustTerm(x, "iface payload")
	switch xt.Sort {
	case SInt:
		return mkIface(tag, xt)
	case SBool:
		return mkIface(tag, Ite(xt, mkInt(1), mkInt(0)))
	}
	fn := "box." + sanitize(xt.Sort)
	r.ctx.DeclareOnce(fn, fmt.Sprintf("(declare-fun %s (%s) Int)", fn, xt.Sort))
	un := "unbox." + sanitize(xt.Sort)
	r.ctx.DeclareOnce(un, fmt.Sprintf("(declare-fun %s (Int) %s)", un, xt.Sort))
	b := app(SInt, fn, xt)
	r.ctx.Assert(Eq(app(xt.Sort, un, b), xt))
	return mkIface(tag, b)
}

func (r *Run) typeAssert(fr *Frame, st *State, reach Term, ins *ssa.TypeAssert) Val {
	x := r.mustTerm(r.operand(fr, st, ins.X), "typeassert")
	at := ins.AssertedType
	var ok Term
	var val Val
	if _, isIface := at.Underlying().(*types.Interface); isIface {
		okc := r.ctx.Fresh("implements", SBool)
		ok = And(Not(Eq(ifTag(x), mkInt(0))), okc)
		val = termVal(x, at)
	} else {
		ok = Eq(ifTag(x), r.typeTag(at))
		switch sortOf(at) {
		case SInt:
			val = termVal(ifVal(x), at)
		case SBool:
			val = termVal(Eq(ifVal(x), mkInt(1)), at)
		default:
			un := "unbox." + sanitize(sortOf(at))
			r.ctx.DeclareOnce(un, fmt.Sprintf("(declare-fun %s (Int) %s)", un, sortOf(at)))
			val = termVal(app(sortOf(at), un, ifVal(x)), at)
		}
		if val.Kind == VTerm {
			wt := r.wellTyped(val.T, at, st)
			r.ctx.Assert(Implies(ok, wt))
		}
	}
	if ins.CommaOk {
		return Val{Kind: VTuple, Tup: []Val{val, termVal(ok, types.Typ[types.Bool])}, Typ: ins.Type()}
	}
	r.safety(fr, "assert", reach, ok, ins.Pos(), "type assertion may fail")
	return val
}

func (r *Run) convert(fr *Frame, st *State, ins *ssa.Convert) Val {
	x := r.operand(fr, st, ins.X)
	src := ins.X.Type()
	dst := ins.Type()
	switch {
	case isInteger(src) && isInteger(dst):
		return termVal(r.ctx.Define("cv", r.convertInt(r.mustTerm(x, "convert"), src, dst)), dst)
	case sortOf(src) == SSlice && sortOf(dst) == SStr:
		return termVal(r.strOfSlice(st, r.mustTerm(x, "convert")), dst)
	case sortOf(src) == SStr && sortOf(dst) == SSlice:
		s := r.mustTerm(x, "convert")
		ref := r.freshRef(st, "bytes")
		ln := app(SInt, "str.len_", s)
		// contents: row[j] = s[j]
		comp, _ := r.elemComp(types.Typ[types.Uint8])
		row := r.ctx.Fresh("strbytes", arraySort(SInt, SInt))
		r.ctx.Assert(Term{fmt.Sprintf("(forall ((j Int)) (! (=> (and (<= 0 j) (< j %s)) (= (select %s j) (str.at_ %s j))) :pattern ((select %s j))))", ln.S, row.S, s.S, row.S), SBool})
		r.heapSet(st, comp, Store(r.heapGet(st, comp), ref, row))
		return termVal(mkSlice(ref, mkInt(0), ln, ln), dst)
	case isInteger(src) && sortOf(dst) == SStr:
		res := r.ctx.Fresh("runestr", SStr)
		return termVal(res, dst)
	case sortOf(src) == SInt && sortOf(dst) == SInt:
		// pointer <-> unsafe.Pointer <-> uintptr
		return termVal(r.mustTerm(x, "convert"), dst)
	}
	return r.freshTyped("convert", dst, st)
}

func (r *Run) lookup(fr *Frame, st *State, reach Term, ins *ssa.Lookup) Val {
	x := r.operand(fr, st, ins.X)
	k := r.mustTerm(r.operand(fr, st, ins.Index), "key")
	if m, ok := ins.X.Type().Underlying().(*types.Map); ok {
		hasc, valc := r.mapComps(m)
		mt := r.mustTerm(x, "map")
		has := Select(Select(r.heapGet(st, hasc), mt), k)
		has = And(Not(Eq(mt, mkInt(0))), has)
		raw := Select(Select(r.heapGet(st, valc), mt), k)
		val := r.ctx.Define("mv", Ite(has, raw, zeroOf(m.Elem())))
		r.ctx.Assert(Implies(has, r.wellTyped(val, m.Elem(), st)))
		v := termVal(val, m.Elem())
		if ins.CommaOk {
			return Val{Kind: VTuple, Tup: []Val{v, termVal(has, types.Typ[types.Bool])}, Typ: ins.Type()}
		}
		return v
	}
	// string index
	if x.Kind == VTerm && x.T.Sort == SStr {
		r.safety(fr, "index", reach, And(Le(mkInt(0), k), Lt(k, app(SInt, "str.len_", x.T))), ins.Pos(), "string index")
		b := app(SInt, "str.at_", x.T, k)
		r.ctx.Assert(And(Le(mkInt(0), b), Le(b, mkInt(255))))
		return termVal(b, ins.Type())
	}
	return r.freshTyped("lookup", ins.Type(), st)
}

func (r *Run) mapUpdate(fr *Frame, st *State, reach Term, ins *ssa.MapUpdate) {
	m, ok := ins.Map.Type().Underlying().(*types.Map)
	if !ok {
		return
	}
	mt := r.mustTerm(r.operand(fr, st, ins.Map), "map")
	k := r.mustTerm(r.operand(fr, st, ins.Key), "key")
	v := r.mustTerm(r.operand(fr, st, ins.Value), "value")
	r.safety(fr, "nil", reach, Not(Eq(mt, mkInt(0))), ins.Pos(), "assignment to entry in nil map")
	hasc, valc := r.mapComps(m)
	lenc := r.mapLenComp(m)
	H := r.heapGet(st, hasc)
	V := r.heapGet(st, valc)
	L := r.heapGet(st, lenc)
	had := Select(Select(H, mt), k)
	r.heapSet(st, lenc, r.ctx.Define("h.maplen", Store(L, mt, Add(Select(L, mt), Ite(had, mkInt(0), mkInt(1))))))
	r.heapSet(st, hasc, r.ctx.Define("h.maphas", Store(H, mt, Store(Select(H, mt), k, tTrue))))
	r.heapSet(st, valc, r.ctx.Define("h.mapval", Store(V, mt, Store(Select(V, mt), k, v))))
}

func (r *Run) next(fr *Frame, st *State, ins *ssa.Next) Val {
	tup := ins.Type().(*types.Tuple)
	ok := r.ctx.Fresh("next.ok", SBool)
	kv := r.freshTyped("next.k", tup.At(1).Type(), st)
	vv := r.freshTyped("next.v", tup.At(2).Type(), st)
	if !ins.IsString {
		if rg, isRange := ins.Iter.(*ssa.Range); isRange {
			if m, isMap := rg.X.Type().Underlying().(*types.Map); isMap {
				it := r.operand(fr, st, ins.Iter)
				if it.Kind == VTuple && len(it.Tup) == 1 {
					mt := r.mustTerm(it.Tup[0], "map")
					hasc, valc := r.mapComps(m)
					if kv.Kind == VTerm {
						r.ctx.Assert(Implies(ok, Select(Select(r.heapGet(st, hasc), mt), kv.T)))
						if vv.Kind == VTerm && vv.T.Sort == arrayValSort(arrayValSort(r.compSort(valc))) {
							r.ctx.Assert(Implies(ok, Eq(vv.T, Select(Select(r.heapGet(st, valc), mt), kv.T))))
						}
					}
				}
			}
		}
	}
	return Val{Kind: VTuple, Tup: []Val{termVal(ok, types.Typ[types.Bool]), kv, vv}, Typ: ins.Type()}
}

// ---------------------------------------------------------------- defers

func (r *Run) runDefers(fr *Frame, st *State, reach Term) Term {
	// entries of this frame, last first
	var mine []DeferEntry
	var rest []DeferEntry
	for _, d := range st.defers {
		if d.frame == fr {
			mine = append(mine, d)
		} else {
			rest = append(rest, d)
		}
	}
	st.defers = rest
	for i := len(mine) - 1; i >= 0; i-- {
		d := mine[i]
		if d.guard.IsFalse() {
			continue
		}
		if d.guard.IsTrue() {
			_, reach = r.execCall(fr, st, reach, &d.instr.Call, d.instr, &d)
			continue
		}
		// conditional defer: run on a copy, then merge
		s1 := st.clone()
		g := And(reach, d.guard)
		_, r1 := r.execCall(fr, s1, g, &d.instr.Call, d.instr, &d)
		ng := And(reach, Not(d.guard))
		merged := r.mergeStates([]Term{r1, ng}, []*State{s1, st})
		*st = *merged
		reach = r.ctx.Define("Rd", Or(r1, ng))
	}
	return reach
}

// ---------------------------------------------------------------- misc used by calls

func bigOf(n int64) *big.Int { return big.NewInt(n) }
