package main

import (
	"bytes"
	"context"
	"fmt"
	"math/big"
	"os"
	"os/exec"
	"path/filepath"
	"strings"
	"sync"
	"time"
)

// Term is an SMT-LIB term with its sort.
type Term struct {
	S    string
	Sort string
}

const (
	SInt   = "Int"
	SBool  = "Bool"
	SSlice = "Slice"
	SStr   = "Str"
	SIface = "Iface"
	SReal  = "Real"
)

var (
	tTrue  = Term{"true", SBool}
	tFalse = Term{"false", SBool}
)

func (t Term) IsTrue() bool  { return t.S == "true" }
func (t Term) IsFalse() bool { return t.S == "false" }

func mkInt(n int64) Term {
	if n < 0 {
		return Term{fmt.Sprintf("(- %d)", -n), SInt}
	}
	return Term{fmt.Sprintf("%d", n), SInt}
}

func mkBig(n *big.Int) Term {
	if n.Sign() < 0 {
		return Term{"(- " + new(big.Int).Neg(n).String() + ")", SInt}
	}
	return Term{n.String(), SInt}
}

func mkBool(b bool) Term {
	if b {
		return tTrue
	}
	return tFalse
}

// intLit returns the literal value of an Int term if it is one.
func intLit(t Term) (*big.Int, bool) {
	s := t.S
	neg := false
	if strings.HasPrefix(s, "(- ") && strings.HasSuffix(s, ")") {
		s = s[3 : len(s)-1]
		neg = true
	}
	if s == "" {
		return nil, false
	}
	for _, c := range s {
		if c < '0' || c > '9' {
			return nil, false
		}
	}
	n, ok := new(big.Int).SetString(s, 10)
	if !ok {
		return nil, false
	}
	if neg {
		n.Neg(n)
	}
	return n, true
}

func app(sort string, op string, args ...Term) Term {
	var b strings.Builder
	b.WriteByte('(')
	b.WriteString(op)
	for _, a := range args {
		b.WriteByte(' ')
		b.WriteString(a.S)
	}
	b.WriteByte(')')
	return Term{b.String(), sort}
}

func And(ts ...Term) Term {
	var keep []Term
	seen := map[string]bool{}
	for _, t := range ts {
		if t.IsFalse() {
			return tFalse
		}
		if t.IsTrue() || seen[t.S] {
			continue
		}
		seen[t.S] = true
		keep = append(keep, t)
	}
	switch len(keep) {
	case 0:
		return tTrue
	case 1:
		return keep[0]
	}
	return app(SBool, "and", keep...)
}

func Or(ts ...Term) Term {
	var keep []Term
	seen := map[string]bool{}
	for _, t := range ts {
		if t.IsTrue() {
			return tTrue
		}
		if t.IsFalse() || seen[t.S] {
			continue
		}
		seen[t.S] = true
		keep = append(keep, t)
	}
	switch len(keep) {
	case 0:
		return tFalse
	case 1:
		return keep[0]
	}
	return app(SBool, "or", keep...)
}

func Not(t Term) Term {
	if t.IsTrue() {
		return tFalse
	}
	if t.IsFalse() {
		return tTrue
	}
	if strings.HasPrefix(t.S, "(not ") {
		return Term{t.S[5 : len(t.S)-1], SBool}
	}
	return app(SBool, "not", t)
}

func Implies(a, b Term) Term {
	if a.IsTrue() {
		return b
	}
	if a.IsFalse() || b.IsTrue() {
		return tTrue
	}
	return app(SBool, "=>", a, b)
}

func Eq(a, b Term) Term {
	if a.S == b.S {
		return tTrue
	}
	if la, ok := intLit(a); ok {
		if lb, ok := intLit(b); ok {
			return mkBool(la.Cmp(lb) == 0)
		}
	}
	if (a.IsTrue() && b.IsFalse()) || (a.IsFalse() && b.IsTrue()) {
		return tFalse
	}
	if a.Sort == SBool {
		if a.IsTrue() {
			return b
		}
		if b.IsTrue() {
			return a
		}
		if a.IsFalse() {
			return Not(b)
		}
		if b.IsFalse() {
			return Not(a)
		}
	}
	return app(SBool, "=", a, b)
}

func Ite(c, a, b Term) Term {
	if c.IsTrue() {
		return a
	}
	if c.IsFalse() {
		return b
	}
	if a.S == b.S {
		return a
	}
	if a.Sort == SBool {
		if a.IsTrue() && b.IsFalse() {
			return c
		}
		if a.IsFalse() && b.IsTrue() {
			return Not(c)
		}
	}
	t := app(a.Sort, "ite", c, a, b)
	iteMu.Lock()
	iteSorts[t.S] = a.Sort
	iteMu.Unlock()
	return t
}

// the sort of every ite term built (needed to name such a term later)
var iteSorts = map[string]string{}
var iteMu sync.Mutex

// nameFor introduces (once) a defined name for a term whose sort is known.
// hasBoolStructure: does the (macro) definition of a name expand to something a pattern must not contain?
func (c *SMTCtx) hasBoolStructure(name string, seen map[string]bool) bool {
	if seen[name] {
		return false
	}
	seen[name] = true
	d, ok := c.defs[name]
	if !ok {
		return false
	}
	if _, isMacro := c.defSort[name]; !isMacro {
		return false // a declared constant with a defining equation: opaque to the pattern checker
	}
	for _, bad := range []string{"(ite ", "(not ", "(and ", "(or ", "(=> ", "(= ", "(<= ", "(< ", "(>= ", "(> "} {
		if strings.Contains(d, bad) {
			return true
		}
	}
	for _, sym := range lineSymbols(d) {
		if c.hasBoolStructure(sym, seen) {
			return true
		}
	}
	return false
}

// opaqueFor: a constant equal to the defined name (for use inside patterns).
func (c *SMTCtx) opaqueFor(name string) string {
	if n, ok := c.named["@"+name]; ok {
		return n
	}
	c.nfresh++
	n := fmt.Sprintf("pat!%d", c.nfresh)
	c.lines = append(c.lines, fmt.Sprintf("(declare-const %s %s)", n, c.defSort[name]))
	c.lines = append(c.lines, fmt.Sprintf("(assert (= %s %s))", n, name))
	c.defs[n] = name
	c.named["@"+name] = n
	return n
}

func (c *SMTCtx) nameFor(s string) string {
	if n, ok := c.named[s]; ok {
		return n
	}
	iteMu.Lock()
	srt, ok := iteSorts[s]
	iteMu.Unlock()
	if !ok {
		return ""
	}
	c.nfresh++
	name := fmt.Sprintf("pat!%d", c.nfresh)
	c.lines = append(c.lines, fmt.Sprintf("(declare-const %s %s)", name, srt))
	c.lines = append(c.lines, fmt.Sprintf("(assert (= %s %s))", name, s))
	c.defs[name] = s
	c.named[s] = name
	return name
}

func arith(op string, a, b Term) Term {
	la, oka := intLit(a)
	lb, okb := intLit(b)
	if oka && okb {
		r := new(big.Int)
		switch op {
		case "+":
			return mkBig(r.Add(la, lb))
		case "-":
			return mkBig(r.Sub(la, lb))
		case "*":
			return mkBig(r.Mul(la, lb))
		}
	}
	switch op {
	case "+":
		if oka && la.Sign() == 0 {
			return b
		}
		if okb && lb.Sign() == 0 {
			return a
		}
	case "-":
		if okb && lb.Sign() == 0 {
			return a
		}
		if a.S == b.S {
			return mkInt(0)
		}
	case "*":
		if oka && la.Cmp(big.NewInt(1)) == 0 {
			return b
		}
		if okb && lb.Cmp(big.NewInt(1)) == 0 {
			return a
		}
	}
	return app(SInt, op, a, b)
}

func Add(a, b Term) Term { return arith("+", a, b) }
func Sub(a, b Term) Term { return arith("-", a, b) }
func Mul(a, b Term) Term { return arith("*", a, b) }

func cmpT(op string, a, b Term) Term {
	la, oka := intLit(a)
	lb, okb := intLit(b)
	if oka && okb {
		c := la.Cmp(lb)
		switch op {
		case "<":
			return mkBool(c < 0)
		case "<=":
			return mkBool(c <= 0)
		case ">":
			return mkBool(c > 0)
		case ">=":
			return mkBool(c >= 0)
		}
	}
	if a.S == b.S {
		return mkBool(op == "<=" || op == ">=")
	}
	return app(SBool, op, a, b)
}

func Lt(a, b Term) Term { return cmpT("<", a, b) }
func Le(a, b Term) Term { return cmpT("<=", a, b) }
func Gt(a, b Term) Term { return cmpT(">", a, b) }
func Ge(a, b Term) Term { return cmpT(">=", a, b) }

func pow2(k uint) *big.Int { return new(big.Int).Lsh(big.NewInt(1), k) }

// ModC / DivC: Go-unsigned style on non-negative x, constant m > 0 (SMT mod/div are euclidean).
func ModC(x Term, m *big.Int) Term {
	if lx, ok := intLit(x); ok {
		return mkBig(new(big.Int).Mod(lx, m))
	}
	return app(SInt, "mod", x, mkBig(m))
}
func DivC(x Term, m *big.Int) Term {
	if lx, ok := intLit(x); ok && lx.Sign() >= 0 {
		return mkBig(new(big.Int).Div(lx, m))
	}
	if m.Cmp(big.NewInt(1)) == 0 {
		return x
	}
	return app(SInt, "div", x, mkBig(m))
}

func Select(a, i Term) Term {
	// (Array K V) -> V
	return app(arrayValSort(a.Sort), "select", a, i)
}
func Store(a, i, v Term) Term { return app(a.Sort, "store", a, i, v) }

func arraySort(k, v string) string { return "(Array " + k + " " + v + ")" }

// arrayValSort extracts V from "(Array K V)".
func arrayValSort(s string) string {
	if !strings.HasPrefix(s, "(Array ") {
		panic("not an array sort: " + s)
	}
	body := s[len("(Array ") : len(s)-1]
	// K may itself be parenthesised
	depth := 0
	for i := 0; i < len(body); i++ {
		switch body[i] {
		case '(':
			depth++
		case ')':
			depth--
		case ' ':
			if depth == 0 {
				return body[i+1:]
			}
		}
	}
	panic("bad array sort: " + s)
}

// Slice accessors
func slBase(s Term) Term { return app(SInt, "sl.base", s) }
func slOff(s Term) Term  { return app(SInt, "sl.off", s) }
func slLen(s Term) Term  { return app(SInt, "sl.len", s) }
func slCap(s Term) Term  { return app(SInt, "sl.cap", s) }
func mkSlice(base, off, ln, cp Term) Term {
	return app(SSlice, "mk-slice", base, off, ln, cp)
}

var nilSlice = Term{"(mk-slice 0 0 0 0)", SSlice}
var nilIface = Term{"(mk-iface 0 0)", SIface}

func ifTag(i Term) Term { return app(SInt, "if.tag", i) }
func ifVal(i Term) Term { return app(SInt, "if.val", i) }
func mkIface(tag, val Term) Term {
	return app(SIface, "mk-iface", tag, val)
}

const preamble = `(set-option :produce-models true)
(set-logic ALL)
(declare-datatypes ((Slice 0)) (((mk-slice (sl.base Int) (sl.off Int) (sl.len Int) (sl.cap Int)))))
(declare-datatypes ((Iface 0)) (((mk-iface (if.tag Int) (if.val Int)))))
(declare-sort Str 0)
(declare-fun str.len_ (Str) Int)
(declare-fun str.at_ (Str Int) Int)
(declare-fun str.of_ (Slice (Array Int Int)) Str)
(declare-fun str.litid_ (Str) Int)
(declare-const str.empty_ Str)
(assert (= (str.len_ str.empty_) 0))
(assert (= (str.litid_ str.empty_) 0))
`

// SMTCtx accumulates declarations, definitions and guarded assumptions in program order.
type SMTCtx struct {
	lines   []string
	nfresh  int
	declared map[string]bool
	defs     map[string]string // defined name -> its definition
	defLine  map[string]int    // defined name -> index of its line
	sortOfTerm map[string]string // terms built through Ite: their sort (for naming)
	named    map[string]string
	curTag   string         // reach term of the block being executed (path slicing)
	tagAt    map[int]string // index of an assert line -> tag it was emitted under
	defSort  map[string]string
}

func newCtx() *SMTCtx {
	return &SMTCtx{declared: map[string]bool{}, defs: map[string]string{}, defLine: map[string]int{}, sortOfTerm: iteSorts, named: map[string]string{}, tagAt: map[int]string{}, defSort: map[string]string{}}
}

func (c *SMTCtx) clone() *SMTCtx {
	n := &SMTCtx{lines: append([]string(nil), c.lines...), nfresh: c.nfresh, declared: map[string]bool{}, defs: c.defs, defLine: c.defLine, sortOfTerm: c.sortOfTerm, named: c.named, curTag: c.curTag, tagAt: c.tagAt, defSort: c.defSort}
	for k := range c.declared {
		n.declared[k] = true
	}
	return n
}

func sanitize(s string) string {
	var b strings.Builder
	for _, r := range s {
		switch {
		case r >= 'a' && r <= 'z', r >= 'A' && r <= 'Z', r >= '0' && r <= '9', r == '_', r == '.', r == '$', r == '#', r == '@', r == '!':
			b.WriteRune(r)
		case r == '*':
			b.WriteString("ptr.")
		case r == '[':
			b.WriteString("_")
		case r == ']':
			b.WriteString("_")
		default:
			b.WriteByte('_')
		}
	}
	return b.String()
}

// Fresh declares a new constant.
func (c *SMTCtx) Fresh(hint, sort string) Term {
	c.nfresh++
	name := fmt.Sprintf("%s!%d", sanitize(hint), c.nfresh)
	c.lines = append(c.lines, fmt.Sprintf("(declare-const %s %s)", name, sort))
	return Term{name, sort}
}

// DeclareOnce declares a named constant/function once.
func (c *SMTCtx) DeclareOnce(name, decl string) {
	if c.declared[name] {
		return
	}
	c.declared[name] = true
	c.lines = append(c.lines, decl)
}

// Define introduces a name for a term (keeps queries DAG-shaped).
func (c *SMTCtx) Define(hint string, t Term) Term {
	if len(t.S) < 40 {
		return t
	}
	c.nfresh++
	name := fmt.Sprintf("%s!%d", sanitize(hint), c.nfresh)
	if strings.HasPrefix(t.Sort, "(Array ") && strings.Contains(t.S, "(ite ") {
		// array-valued merges are named by a constant and an equation (not a macro): solvers expand macros, and a
		// quantifier pattern over the expanded term would contain boolean structure, which patterns must not
		c.lines = append(c.lines, fmt.Sprintf("(declare-const %s %s)", name, t.Sort))
		c.lines = append(c.lines, fmt.Sprintf("(assert (= %s %s))", name, t.S))
		c.defs[name] = t.S
		c.defLine[name] = len(c.lines) - 2
		return Term{name, t.Sort}
	}
	c.lines = append(c.lines, fmt.Sprintf("(define-fun %s () %s %s)", name, t.Sort, t.S))
	c.defs[name] = t.S
	c.defSort[name] = t.Sort
	c.defLine[name] = len(c.lines) - 1
	return Term{name, t.Sort}
}

func (c *SMTCtx) Assert(t Term) {
	if t.IsTrue() {
		return
	}
	// split conjunctions (also under an implication) so that slicing can drop the irrelevant conjuncts
	if args, ok := splitApp(t.S, "and"); ok {
		for _, a := range args {
			c.Assert(Term{a, SBool})
		}
		return
	}
	if args, ok := splitApp(t.S, "=>"); ok && len(args) == 2 {
		if conj, ok := splitApp(args[1], "and"); ok {
			for _, a := range conj {
				c.Assert(Term{"(=> " + args[0] + " " + a + ")", SBool})
			}
			return
		}
	}
	if c.curTag != "" {
		c.tagAt[len(c.lines)] = c.curTag
	}
	c.lines = append(c.lines, "(assert "+t.S+")")
}

// splitApp splits "(op a b c)" into its top-level arguments.
func splitApp(s, op string) ([]string, bool) {
	prefix := "(" + op + " "
	if !strings.HasPrefix(s, prefix) || !strings.HasSuffix(s, ")") {
		return nil, false
	}
	body := s[len(prefix) : len(s)-1]
	var out []string
	depth := 0
	start := 0
	for i := 0; i < len(body); i++ {
		switch body[i] {
		case '(':
			depth++
		case ')':
			depth--
			if depth < 0 {
				return nil, false
			}
		case ' ':
			if depth == 0 {
				if i > start {
					out = append(out, body[start:i])
				}
				start = i + 1
			}
		}
	}
	if depth != 0 {
		return nil, false
	}
	if start < len(body) {
		out = append(out, body[start:])
	}
	return out, true
}

func (c *SMTCtx) Mark() int { return len(c.lines) }

// Query renders the query "prefix ∧ extra… ∧ ¬goal".
func (c *SMTCtx) Query(mark int, hyps []Term, goal Term) string {
	var b strings.Builder
	b.WriteString(preamble)
	for _, l := range c.lines[:mark] {
		b.WriteString(l)
		b.WriteByte('\n')
	}
	for _, h := range hyps {
		if !h.IsTrue() {
			b.WriteString("(assert " + h.S + ")\n")
		}
	}
	b.WriteString("(assert (not " + goal.S + "))\n(check-sat)\n")
	return b.String()
}

// ---------------------------------------------------------------- solvers

type SolveResult struct {
	Status string // unsat | sat | unknown | timeout | error
	Solver string
	Secs   float64
	Model  string
	Raw    string
}

var solverList = []string{"z3-new", "z3", "cvc5"}

func solverCmd(name string, file string, timeoutS int) *exec.Cmd {
	switch name {
	case "z3":
		return exec.Command("z3", fmt.Sprintf("-T:%d", timeoutS), file)
	case "z3-new":
		return exec.Command("z3-new", fmt.Sprintf("-T:%d", timeoutS), file)
	case "cvc5":
		return exec.Command("cvc5", fmt.Sprintf("--tlimit=%d", timeoutS*1000), "--produce-models", file)
	}
	panic(name)
}

var scratchDir string
var scratchOnce sync.Once

func scratch() string {
	scratchOnce.Do(func() {
		d, err := os.MkdirTemp("", "govc-")
		if err != nil {
			panic(err)
		}
		scratchDir = d
	})
	return scratchDir
}

func cleanupScratch() {
	if scratchDir != "" {
		os.RemoveAll(scratchDir)
	}
}

func runOne(ctx context.Context, solver, file string, timeoutS int, wantModel bool) SolveResult {
	start := time.Now()
	cmd := solverCmd(solver, file, timeoutS)
	var out bytes.Buffer
	cmd.Stdout = &out
	cmd.Stderr = &out
	done := make(chan error, 1)
	if err := cmd.Start(); err != nil {
		return SolveResult{Status: "error", Solver: solver, Raw: err.Error()}
	}
	go func() { done <- cmd.Wait() }()
	select {
	case <-done:
	case <-ctx.Done():
		_ = cmd.Process.Kill()
		<-done
		return SolveResult{Status: "cancelled", Solver: solver, Secs: time.Since(start).Seconds()}
	case <-time.After(time.Duration(timeoutS+2) * time.Second):
		_ = cmd.Process.Kill()
		<-done
		return SolveResult{Status: "timeout", Solver: solver, Secs: time.Since(start).Seconds()}
	}
	raw := out.String()
	first := ""
	for _, ln := range strings.Split(raw, "\n") {
		ln = strings.TrimSpace(ln)
		if ln == "" || strings.HasPrefix(ln, "WARNING") {
			continue
		}
		first = ln
		break
	}
	res := SolveResult{Solver: solver, Secs: time.Since(start).Seconds(), Raw: raw}
	switch {
	case first == "unsat":
		res.Status = "unsat"
	case first == "sat":
		res.Status = "sat"
		if i := strings.Index(raw, "\n"); i >= 0 {
			res.Model = raw[i+1:]
		}
	case first == "timeout" || strings.Contains(first, "timeout") || strings.Contains(raw, "interrupted by timeout"):
		res.Status = "timeout"
	case first == "unknown":
		res.Status = "unknown"
	default:
		res.Status = "error"
	}
	return res
}

// solve races the solvers on a query. A "sat" from any solver or an "unsat" from any solver ends the race.
func solve(name, query string, timeoutS int, wantModel bool) SolveResult {
	dir := scratch()
	file := filepath.Join(dir, sanitize(name)+".smt2")
	q := query
	if wantModel {
		q += "(get-model)\n"
	}
	if err := os.WriteFile(file, []byte(q), 0o644); err != nil {
		return SolveResult{Status: "error", Raw: err.Error()}
	}
	defer os.Remove(file)
	// stage 1: z3-new alone with a short budget (most obligations discharge in well under a second).
	short := 3
	if timeoutS < short {
		short = timeoutS
	}
	r := runOne(context.Background(), "z3-new", file, short, wantModel)
	if r.Status == "unsat" || r.Status == "sat" {
		return r
	}
	// stage 2: race all three with the full budget.
	ctx, cancel := context.WithCancel(context.Background())
	defer cancel()
	ch := make(chan SolveResult, len(solverList))
	for _, s := range solverList {
		go func(s string) { ch <- runOne(ctx, s, file, timeoutS, wantModel) }(s)
	}
	var last SolveResult = r
	total := r.Secs
	for range solverList {
		x := <-ch
		if x.Status == "unsat" || x.Status == "sat" {
			cancel()
			x.Secs += total
			return x
		}
		if x.Status != "cancelled" {
			if x.Status == "error" && last.Status != "error" && last.Status != "" {
				// keep a more informative non-error status, but remember the error text
				last.Raw += "\n[" + x.Solver + "] " + x.Raw
			} else {
				last = x
			}
		}
	}
	return last
}

// Expand replaces a defined name by its definition (one level), for syntactic pattern matching.
func (c *SMTCtx) Expand(t Term) Term {
	if d, ok := c.defs[t.S]; ok {
		return Term{d, t.Sort}
	}
	return t
}

// solveWith runs one solver once.
func solveWith(solver, name, query string, timeoutS int) SolveResult {
	dir := scratch()
	file := filepath.Join(dir, sanitize(name)+".smt2")
	if err := os.WriteFile(file, []byte(query), 0o644); err != nil {
		return SolveResult{Status: "error", Raw: err.Error()}
	}
	defer os.Remove(file)
	return runOne(context.Background(), solver, file, timeoutS, false)
}
