package main

import (
	"os/exec"
	"encoding/json"
	"flag"
	"fmt"
	"os"
	"path/filepath"
	"runtime"
	"sort"
	"strings"
	"time"
)

var verifDir = "/verif"

func main() {
	if len(os.Args) < 2 {
		fmt.Println("usage: govc ssa <funckey> | fn <funckey> | check -prop Cxx [-tier quick|thorough] | list")
		os.Exit(2)
	}
	if d := os.Getenv("GOVC_VERIF"); d != "" {
		verifDir = d
	}
	if d := os.Getenv("GOVC_REPO"); d != "" {
		repoDir = d
	}
	defer cleanupScratch()
	switch os.Args[1] {
	case "ssa":
		p, err := loadProgram([]string{"./..."})
		if err != nil {
			fmt.Println(err)
			os.Exit(2)
		}
		dumpSSA(p, os.Args[2])
	case "fn":
		cmdFn(os.Args[2:])
	case "check":
		code := cmdCheck(os.Args[2:])
		cleanupScratch()
		os.Exit(code)
	case "list":
		cmdList()
	default:
		fmt.Println("unknown command")
		os.Exit(2)
	}
}

func loadAll() (*Program, *Specs, error) {
	p, err := loadProgram([]string{"./..."})
	if err != nil {
		return nil, nil, err
	}
	sp, err := loadSpecs(specFiles(repoDir, verifDir))
	if err != nil {
		return nil, nil, err
	}
	return p, sp, nil
}

func cmdList() {
	_, sp, err := loadAll()
	if err != nil {
		fmt.Println(err)
		os.Exit(2)
	}
	var ks []string
	for k := range sp.Funcs {
		ks = append(ks, k)
	}
	sort.Strings(ks)
	for _, k := range ks {
		f := sp.Funcs[k]
		fmt.Printf("%-60s %-8s props=%v safety=%v req=%d ens=%d\n", k, f.Kind, f.Props, f.Safety, len(f.Requires), len(f.Ensures))
	}
}

// cmdFn verifies one function and prints every obligation (debugging aid).
func cmdFn(args []string) {
	fs := flag.NewFlagSet("fn", flag.ExitOnError)
	timeout := fs.Int("timeout", 10, "per-obligation timeout (s)")
	dump := fs.String("dump", "", "write the queries of failing obligations to this directory")
	all := fs.Bool("all", false, "also run unclaimed safety obligations")
	expl := fs.String("explain", "", "for refuted obligations whose name contains this string: print the branch decisions of the model")
	fs.Parse(args[1:])
	key := args[0]
	prog, sp, err := loadAll()
	if err != nil {
		fmt.Println(err)
		os.Exit(2)
	}
	if prog.Funcs[key] == nil {
		dumpSSA(prog, key)
		os.Exit(2)
	}
	res := verifyFunction(prog, sp, key)
	if res.Fatal != "" {
		fmt.Println("FATAL:", res.Fatal)
	}
	spec := sp.Funcs[key]
	var run []*Obligation
	for _, o := range res.Obls {
		if o.Kind == "safe" && !*all && !claimsSafety(spec, o.Sub) {
			continue
		}
		run = append(run, o)
	}
	dischargeAll(run, *timeout, runtime.NumCPU())
	for _, o := range run {
		st := "?"
		if o.Result != nil {
			st = o.Result.Status
		}
		mark := "ok  "
		if !o.Held() {
			mark = "FAIL"
		}
		secs := 0.0
		solver := ""
		if o.Result != nil {
			secs = o.Result.Secs
			solver = o.Result.Solver
		}
		fmt.Printf("%s %-70s %-8s %-7s %5.2fs %s  %s\n", mark, o.Name, st, solver, secs, o.Pos, trunc(o.Text, 70))
		if !o.Held() && *expl != "" && strings.Contains(o.Name, *expl) {
			fmt.Print(explain(o, 20))
		}
		if !o.Held() && *dump != "" {
			os.MkdirAll(*dump, 0o755)
			os.WriteFile(filepath.Join(*dump, sanitize(o.Name)+".smt2"), []byte(o.Query+"(get-model)\n"), 0o644)
			if o.Result != nil {
				os.WriteFile(filepath.Join(*dump, sanitize(o.Name)+".out"), []byte(o.Result.Raw), 0o644)
			}
		}
	}
	var ws []string
	for w, n := range res.Warns {
		ws = append(ws, fmt.Sprintf("%s (x%d)", w, n))
	}
	sort.Strings(ws)
	for _, w := range ws {
		fmt.Println("warn:", w)
	}
	for _, t := range res.Trusted {
		fmt.Println("trusted:", t)
	}
	fmt.Printf("generated in %.2fs, %d obligations run\n", res.GenSecs, len(run))
}

func trunc(s string, n int) string {
	if len(s) > n {
		return s[:n] + "…"
	}
	return s
}

func claimsSafety(spec *FuncSpec, sub string) bool {
	if spec == nil {
		return false
	}
	for _, s := range spec.Safety {
		if s == sub {
			return true
		}
	}
	return false
}

func assumedAfter(kind string) bool {
	switch kind {
	case "pre", "assert", "inv-entry", "inv-step":
		// (a monitor invariant checked at an Unlock is assumed by OTHER threads at their Lock, not by the rest of this
		// function: it stays with the properties it is labelled with)
		return true
	}
	return false
}

func hasProp(props []string, p string) bool {
	for _, x := range props {
		if x == p {
			return true
		}
	}
	return false
}

// specServes reports whether a function's contract has anything tagged with the property.
func specServes(f *FuncSpec, prop string) bool {
	if hasProp(f.Props, prop) {
		return true
	}
	for _, c := range f.Requires {
		if hasProp(c.Props, prop) {
			return true
		}
	}
	for _, c := range f.Ensures {
		if hasProp(c.Props, prop) {
			return true
		}
	}
	for _, l := range f.Loops {
		for _, c := range l.Invariants {
			if hasProp(c.Props, prop) {
				return true
			}
		}
	}
	return false
}

// monitorServes: the function belongs to a package that declares a monitor invariant labelled with the property. A
// monitor invariant is only as good as its weakest Unlock: every function under contract of that package is run, and
// the monitor obligations it generates for that invariant are part of the property's check.
func monitorServes(sp *Specs, f *FuncSpec, prop string) bool {
	for _, m := range sp.Monitors {
		if m.Pkg != f.Pkg {
			continue
		}
		for _, c := range m.Inv {
			if hasProp(c.Props, prop) {
				return true
			}
		}
	}
	return false
}

type oblReport struct {
	Name   string  `json:"name"`
	Kind   string  `json:"kind"`
	Status string  `json:"status"`
	Solver string  `json:"solver"`
	Secs   float64 `json:"secs"`
	Pos    string  `json:"pos,omitempty"`
	Text   string  `json:"text,omitempty"`
	Bytes  int     `json:"smt_bytes,omitempty"`
}

func cmdCheck(args []string) int {
	fs := flag.NewFlagSet("check", flag.ExitOnError)
	prop := fs.String("prop", "", "property id")
	tier := fs.String("tier", "quick", "quick | thorough")
	fs.Parse(args)
	if *prop == "" {
		fmt.Println("check needs -prop")
		return 2
	}
	start := time.Now()
	timeout := 10
	if *tier == "thorough" {
		timeout = 60
	}
	seed := 0
	fmt.Sscanf(os.Getenv("VERIF_SEED"), "%d", &seed)
	prog, sp, err := loadAll()
	if err != nil {
		fmt.Println("UNDECIDED: cannot load /repo:", err)
		return 2
	}
	known, err := loadKnown(filepath.Join(verifDir, "known_findings.json"))
	if err != nil {
		fmt.Println("UNDECIDED: known_findings.json:", err)
		return 2
	}
	activeKnown = known
	var keys []string
	for k, f := range sp.Funcs {
		if f.Kind == "func" && !f.Trusted && !f.Inline && !f.Havoc && (specServes(f, *prop) || monitorServes(sp, f, *prop)) {
			keys = append(keys, k)
		}
	}
	sort.Strings(keys)
	if len(keys) == 0 {
		fmt.Printf("UNDECIDED: no contracts serve %s\n", *prop)
		return 2
	}
	var obls []*Obligation
	var results []*FuncResult
	undecided := []string{}
	warnAll := map[string]int{}
	trusted := map[string]bool{}
	arithMath := []string{}
	for _, k := range keys {
		res := verifyFunction(prog, sp, k)
		results = append(results, res)
		if res.Fatal != "" {
			undecided = append(undecided, res.Fatal)
			continue
		}
		spec := sp.Funcs[k]
		for w, n := range res.Warns {
			warnAll[k+": "+w] += n
		}
		for _, t := range res.Trusted {
			trusted[t] = true
		}
		if res.ArithMath {
			arithMath = append(arithMath, k)
		}
		for _, o := range res.Obls {
			if o.Kind == "safe" {
				if !claimsSafety(spec, o.Sub) || !hasProp(spec.Props, *prop) {
					continue
				}
				o.Props = spec.Props
			} else if !hasProp(o.Props, *prop) {
				// an obligation that the generator ASSUMES once it has been emitted (call preconditions, anchored
				// assertions, invariants, monitor invariants) supports every later obligation of its function: if it
				// fails, what was proved after it for this property was proved under a false assumption
				if !(hasProp(spec.Props, *prop) && assumedAfter(o.Kind)) {
					continue
				}
			}
			obls = append(obls, o)
		}
	}
	if len(undecided) > 0 {
		for _, u := range undecided {
			fmt.Println("UNDECIDED:", u)
		}
		return 2
	}
	// known findings: split obligations into the excluded case and the rest
	obls = applyKnown(obls, known, *prop, prog, sp)
	dischargeAll(obls, timeout, runtime.NumCPU())
	{
		// an obligation that merely ran out of time (a loaded machine, an unlucky solver run) gets one more run with three
		// times the budget before it is reported; a real failure stays a failure, it only costs the extra time
		var again []*Obligation
		for _, o := range obls {
			if !o.Cover && o.knownExpectedFail == nil && o.Result != nil && o.Result.Status != "unsat" && o.Result.Status != "sat" {
				again = append(again, o)
			}
		}
		if len(again) > 0 && len(again) <= 8 {
			for _, o := range again {
				o.splitConds = nil // the case split has been tried already
			}
			dischargeAll(again, timeout*3, runtime.NumCPU())
		}
	}

	os.MkdirAll(filepath.Join(verifDir, "replays", *prop), 0o755)
	violations := 0
	var unreachable []string
	discharged := 0
	nonCover := 0
	var reports []oblReport
	var samples []interface{}
	solverSecs := 0.0
	bySolver := map[string]int{}
	for _, o := range obls {
		st := "none"
		solver := ""
		secs := 0.0
		if o.Result != nil {
			st, solver, secs = o.Result.Status, o.Result.Solver, o.Result.Secs
		}
		solverSecs += secs
		reports = append(reports, oblReport{o.Name, o.Kind, st, solver, secs, o.Pos, o.Text, len(o.Query)})
		if o.knownExpectedFail != nil {
			// the excluded case of a known finding: expected to fail
			if !o.Held() {
				fmt.Printf("KNOWN-FINDING: property=%s %s [%s]\n", *prop, o.knownExpectedFail.What, o.knownExpectedFail.Obligation)
			}
			continue
		}
		if !o.Cover {
			nonCover++
		}
		if o.Cover && !o.Held() && strings.Contains(o.Name, "/reach@") {
			// an unreachable program point is reported, not treated as a violation of the property: code that can
			// not run can not break it (dead error handlers exist; recover() paths are dead by construction here)
			fmt.Printf("NOTE: unreachable under the contracts: %s (%s)\n", o.Name, o.Pos)
			unreachable = append(unreachable, o.Name)
			continue
		}
		if o.Held() {
			if !o.Cover {
				discharged++
				bySolver[solver]++
			}
			continue
		}
		violations++
		path := writeReplay(prog, sp, *prop, o)
		tail := ""
		if !strings.HasSuffix(path, ".go") {
			tail = " no-failing-input-found"
		}
		fmt.Printf("VIOLATION property=%s replay=%s obligation=%s status=%s%s\n", *prop, path, o.Name, st, tail)
	}
	// bounded stand-ins registered for this property (never counted as proved; a failing one is a violation with an
	// executable replay: the stand-in itself)
	boundedReports, boundedFailed := runBounded(*prop, *tier)
	violations += boundedFailed
	for i, o := range obls {
		if i%maxInt(1, len(obls)/5) == 0 && len(samples) < 6 {
			samples = append(samples, map[string]interface{}{"obligation": o.Name, "kind": o.Kind, "clause": o.Text, "at": o.Pos, "smt_bytes": len(o.Query), "status": statusOf(o)})
		}
	}
	var warns []string
	for w, n := range warnAll {
		warns = append(warns, fmt.Sprintf("%s (x%d)", w, n))
	}
	sort.Strings(warns)
	var tb []string
	for t := range trusted {
		tb = append(tb, t)
	}
	sort.Strings(tb)
	tb = append(tb, "go/types + go/ssa front end (x/tools v0.29.0, naive form)", "govc SSA->SMT encoding", "SMT solvers z3 4.8.12 / z3-new 5.1.0 / cvc5 1.0")
	assumptions := []string{}
	if len(arithMath) > 0 {
		assumptions = append(assumptions, "signed machine arithmetic treated as mathematical (no overflow) in: "+strings.Join(arithMath, ", "))
	}
	assumptions = append(assumptions, "unsigned arithmetic is modelled exactly (mod 2^k)",
		"panics are obligations, not control flow; recover() returns nil on the executions considered",
		"Go memory model not modelled: fields proved to be accessed under their mutex are assumed race free",
		"addresses of struct fields are not stored in the heap (pointer provenance by type)")
	assumptions = append(assumptions, warns...)
	ev := map[string]interface{}{
		"property_id": *prop, "tier": *tier, "seed": seed, "level": "proof",
		"coverage": map[string]interface{}{
			"obligations": nonCover, "discharged": discharged,
			"checker_cmd":  fmt.Sprintf("/verif/bin/govc check -prop %s -tier %s", *prop, *tier),
			"trusted_base": tb,
			"functions_under_contract": keys,
			"by_solver":   bySolver,
			"solver_secs": solverSecs,
			"per_obligation": reports,
			"samples":     samples,
			"vacuity_covers": len(obls) - nonCover - countKnown(obls),
			"unreachable_sites": unreachable,
			"timeout_s":   timeout,
			"bounded_stand_ins": boundedReports,
		},
		"assumptions": assumptions,
		"wall_s":      time.Since(start).Seconds(),
		"violations":  violations,
	}
	os.MkdirAll(filepath.Join(verifDir, "evidence"), 0o755)
	data, _ := json.MarshalIndent(ev, "", " ")
	os.WriteFile(filepath.Join(verifDir, "evidence", *prop+".json"), data, 0o644)
	fmt.Printf("%s: %d functions, %d obligations, %d discharged, %d violations, %.1fs\n", *prop, len(keys), nonCover, discharged, violations, time.Since(start).Seconds())
	if violations > 0 {
		return 1
	}
	return 0
}

func statusOf(o *Obligation) string {
	if o.Result == nil {
		return "none"
	}
	return o.Result.Status
}

func countKnown(obls []*Obligation) int {
	n := 0
	for _, o := range obls {
		if o.knownExpectedFail != nil {
			n++
		}
	}
	return n
}

func maxInt(a, b int) int {
	if a > b {
		return a
	}
	return b
}

func init() {
	if os.Getenv("GOVC_DUMP_SLICE") != "" {
		dumpSliceDir = os.Getenv("GOVC_DUMP_SLICE")
	}
}

// runBounded runs the bounded stand-ins listed in /verif/bounded/index.json for the property: in-package tests injected
// with -overlay into the real package of /repo's working tree. They check a TRUSTED contract on the real function for a
// stated, finite set of inputs.
func runBounded(prop, tier string) ([]map[string]interface{}, int) {
	raw, err := os.ReadFile(filepath.Join(verifDir, "bounded", "index.json"))
	if err != nil {
		return nil, 0
	}
	var items []struct {
		Property, Name, File, Dest, Pkg, Run, Bound string
		StandsInFor                               string   `json:"stands_in_for"`
		BoundThorough                             string   `json:"bound_thorough"`
		Hide                                      []string `json:"hide"` // test files of the package replaced by an empty file for this run (e.g. one whose init() binds a fixed port)
	}
	if err := json.Unmarshal(raw, &items); err != nil {
		fmt.Println("UNDECIDED: bounded/index.json:", err)
		return nil, 0
	}
	var out []map[string]interface{}
	failed := 0
	for _, it := range items {
		if it.Property != prop {
			continue
		}
		start := time.Now()
		dir, _ := os.MkdirTemp("", "govc-bounded-")
		ov := map[string]map[string]string{"Replace": {filepath.Join(repoDir, it.Dest): filepath.Join(verifDir, "bounded", it.File)}}
		if len(it.Hide) > 0 {
			pkgName := "main"
			if src, err := os.ReadFile(filepath.Join(verifDir, "bounded", it.File)); err == nil {
				for _, ln := range strings.Split(string(src), "\n") {
					if strings.HasPrefix(ln, "package ") {
						pkgName = strings.TrimSpace(strings.TrimPrefix(ln, "package "))
						break
					}
				}
			}
			empty := filepath.Join(dir, "empty_test.go")
			os.WriteFile(empty, []byte("package "+pkgName+"\n"), 0o644)
			for _, h := range it.Hide {
				ov["Replace"][filepath.Join(repoDir, h)] = empty
			}
		}
		ovData, _ := json.Marshal(ov)
		ovPath := filepath.Join(dir, "ov.json")
		os.WriteFile(ovPath, ovData, 0o644)
		cmd := exec.Command("go", "test", "-overlay", ovPath, "-vet=off", "-count=1", "-timeout", "600s", "-run", "^"+it.Run+"$", "-v", it.Pkg)
		cmd.Dir = repoDir
		// the harnesses widen their bounds when GOVC_TIER=thorough
		cmd.Env = append(os.Environ(), "GOFLAGS=-mod=mod", "GOPROXY=off", "GOSUMDB=off", "GOTOOLCHAIN=local", "GOVC_TIER="+tier)
		outb, err := cmd.CombinedOutput()
		os.RemoveAll(dir)
		text := string(outb)
		cases := 0
		if k := strings.Index(text, "BOUNDED-CASES "); k >= 0 {
			fmt.Sscanf(text[k+len("BOUNDED-CASES "):], "%d", &cases)
		}
		status := "passed"
		if strings.Contains(text, "[build failed]") && !strings.Contains(text, "--- FAIL") {
			// the harness no longer compiles against the tree (an API it uses changed): that decides nothing about the
			// property - it is reported, not raised as a violation
			status = "NOT-RUN (harness does not build against this tree)"
			fmt.Printf("NOTE: bounded stand-in %s does not build against this tree; it decided nothing (%s)\n", it.Run, filepath.Join(verifDir, "bounded", it.File))
		} else if err != nil || !strings.Contains(text, "--- PASS: "+it.Run) {
			status = "FAILED"
			failed++
			replay := filepath.Join(verifDir, "replays", prop, "bounded_"+it.Run+".txt")
			os.MkdirAll(filepath.Dir(replay), 0o755)
			os.WriteFile(replay, []byte("bounded stand-in "+it.Name+" failed on the real code.\nre-run: cd /repo && go test -overlay <Replace "+it.Dest+" by "+filepath.Join(verifDir, "bounded", it.File)+"> -vet=off -run "+it.Run+" "+it.Pkg+"\n\n"+text), 0o644)
			fmt.Printf("VIOLATION property=%s replay=%s obligation=bounded:%s status=failed-on-real-code\n", prop, filepath.Join(verifDir, "bounded", it.File), it.Run)
		}
		bound := it.Bound
		if tier == "thorough" && it.BoundThorough != "" {
			bound = it.BoundThorough
		}
		out = append(out, map[string]interface{}{"name": it.Name, "label": "BOUNDED (not a proof)", "bound": bound, "stands_in_for": it.StandsInFor,
			"status": status, "cases_run": cases, "secs": time.Since(start).Seconds(), "harness": filepath.Join("bounded", it.File)})
	}
	return out, failed
}
