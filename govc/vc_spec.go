package main

import (
	"fmt"
	"go/constant"
	"go/token"
	"go/types"
	"math/big"
	"strings"
)

// Env is the evaluation environment of a contract expression.
type Env struct {
	r       *Run
	vars    map[string]Val // bound names (params in ensures, quantified vars, pred params, results)
	oldVars map[string]Val // names as they resolve inside old(...)
	fr      *Frame         // locals of this frame are visible (loop invariants, ghost blocks); may be nil
	pos     token.Pos
	st      *State
	old     *State
	pkg     *types.Package
	specPkg string
	inOld   bool
	err     error
}

func (e *Env) fail(f string, a ...interface{}) Val {
	if e.err == nil {
		e.err = fmt.Errorf(f, a...)
	}
	return termVal(e.r.ctx.Fresh("specerr", SBool), types.Typ[types.Bool])
}

func (e *Env) with(name string, v Val) *Env {
	n := *e
	n.vars = make(map[string]Val, len(e.vars)+1)
	for k, x := range e.vars {
		n.vars[k] = x
	}
	n.vars[name] = v
	return &n
}

func (e *Env) state() *State {
	if e.inOld && e.old != nil {
		return e.old
	}
	return e.st
}

// evalBool evaluates a clause to a Bool term.
func (e *Env) evalBool(x Expr) Term {
	hadErr := e.err != nil
	v := e.eval(x)
	if !hadErr && e.err != nil && missingName(e.err) {
		// the clause names a field or variable the code no longer has: it can be neither assumed nor proved - an
		// unconstrained proposition (assuming it adds nothing; an obligation to prove it fails and is reported)
		e.r.warn("contract clause not evaluable on this code (%v): %s", e.err, trunc(exprString(x), 80))
		e.err = nil
		return e.r.ctx.Fresh("unevaluable", SBool)
	}
	if v.Kind != VTerm || v.T.Sort != SBool {
		e.fail("clause is not boolean: %s", exprString(x))
		return tTrue
	}
	return v.T
}

var untypedNil = types.Typ[types.UntypedNil]

func (e *Env) eval(x Expr) Val {
	r := e.r
	switch x := x.(type) {
	case *EInt:
		return termVal(mkBig(x.V), types.Typ[types.UntypedInt])
	case *EStr:
		return termVal(r.strLit(x.V), types.Typ[types.String])
	case *EIdent:
		return e.ident(x.Name)
	case *EUnary:
		switch x.Op {
		case "!":
			return termVal(Not(e.evalBool(x.X)), types.Typ[types.Bool])
		case "-":
			v := e.eval(x.X)
			return termVal(Sub(mkInt(0), e.term(v)), v.Typ)
		case "*":
			v := e.eval(x.X)
			l := r.derefLoc(v)
			if l == nil {
				return e.fail("cannot dereference %s", exprString(x.X))
			}
			return r.load(e.state(), l)
		case "&":
			l := e.r.specLoc(e, x.X)
			if l == nil {
				return e.fail("cannot take the address of %s", exprString(x.X))
			}
			var pt types.Type
			if l.Typ != nil {
				pt = types.NewPointer(l.Typ)
			}
			return termVal(e.r.mustTerm(locVal(l, pt), "address"), pt)
		case "^":
			v := e.eval(x.X)
			if v.Typ != nil && isInteger(v.Typ) && isUnsigned(v.Typ) {
				_, hi := intRange(v.Typ)
				return termVal(Sub(mkBig(hi), e.term(v)), v.Typ)
			}
			return termVal(Sub(mkInt(-1), e.term(v)), v.Typ)
		}
		return e.fail("unary %s unsupported", x.Op)
	case *EBinary:
		return e.binary(x)
	case *ECall:
		return e.call(x)
	case *EIndex:
		return e.index(x)
	case *ESlice:
		v := e.eval(x.X)
		if v.Kind != VTerm || v.T.Sort != SSlice {
			return e.fail("slicing a non-slice: %s", exprString(x.X))
		}
		lo := mkInt(0)
		hi := slLen(v.T)
		if x.Lo != nil {
			lo = e.term(e.eval(x.Lo))
		}
		if x.Hi != nil {
			hi = e.term(e.eval(x.Hi))
		}
		return termVal(mkSlice(slBase(v.T), Add(slOff(v.T), lo), Sub(hi, lo), Sub(slCap(v.T), lo)), v.Typ)
	case *ESel:
		return e.selector(x)
	case *EQuant:
		return e.quant(x)
	}
	return e.fail("unsupported expression %T", x)
}

func (e *Env) term(v Val) Term {
	if v.Kind == VNone {
		return mkInt(0)
	}
	return e.r.mustTerm(v, "spec value")
}

func (e *Env) ident(name string) Val {
	r := e.r
	switch name {
	case "true":
		return termVal(tTrue, types.Typ[types.Bool])
	case "false":
		return termVal(tFalse, types.Typ[types.Bool])
	case "nil":
		return Val{Kind: VNone, Typ: untypedNil}
	case "top":
		return termVal(r.heapGet(e.state(), "$top"), types.Typ[types.Int])
	}
	if e.inOld {
		if v, ok := e.oldVars[name]; ok {
			return v
		}
	}
	if v, ok := e.vars[name]; ok {
		return v
	}
	if e.fr != nil && !e.inOld {
		if l := e.fr.lookupLocal(name, e.pos); l != nil {
			if l.Typ != nil && l.Kind == LComp {
				if _, isStruct := l.Typ.Underlying().(*types.Struct); isStruct {
					// a struct-valued local: designate its storage, its fields are selected next
					return locVal(l, types.NewPointer(l.Typ))
				}
			}
			return r.load(e.st, l)
		}
	}
	if v, ok := e.oldVars[name]; ok && e.fr == nil {
		return v
	}
	// package level
	if e.pkg != nil {
		if obj := e.pkg.Scope().Lookup(name); obj != nil {
			return e.object(obj)
		}
	}
	// ghost global
	if srt, ok := r.specs.Ghosts[name]; ok {
		comp := "ghost." + name
		r.regComp(comp, srt)
		return termVal(r.heapGet(e.state(), comp), nil)
	}
	if obj := types.Universe.Lookup(name); obj != nil {
		if c, ok := obj.(*types.Const); ok {
			return e.constant(c)
		}
	}
	return e.fail("unknown identifier %q", name)
}

func (e *Env) constant(c *types.Const) Val {
	switch c.Val().Kind() {
	case constant.Int:
		n, _ := new(big.Int).SetString(c.Val().ExactString(), 10)
		return termVal(mkBig(n), c.Type())
	case constant.Bool:
		return termVal(mkBool(constant.BoolVal(c.Val())), c.Type())
	case constant.String:
		return termVal(e.r.strLit(constant.StringVal(c.Val())), c.Type())
	}
	return e.fail("unsupported constant kind for %s", c.Name())
}

func (e *Env) object(obj types.Object) Val {
	r := e.r
	switch o := obj.(type) {
	case *types.Const:
		return e.constant(o)
	case *types.Var:
		l := r.globalLoc(o)
		return r.load(e.state(), l)
	}
	return e.fail("unsupported object %s", obj.Name())
}

func (e *Env) binary(x *EBinary) Val {
	boolT := types.Typ[types.Bool]
	switch x.Op {
	case "&&":
		return termVal(And(e.evalBool(x.X), e.evalBool(x.Y)), boolT)
	case "||":
		return termVal(Or(e.evalBool(x.X), e.evalBool(x.Y)), boolT)
	case "==>":
		return termVal(Implies(e.evalBool(x.X), e.evalBool(x.Y)), boolT)
	case "<==>":
		return termVal(Eq(e.evalBool(x.X), e.evalBool(x.Y)), boolT)
	}
	a := e.eval(x.X)
	b := e.eval(x.Y)
	switch x.Op {
	case "==", "!=":
		var eq Term
		switch {
		case a.Kind == VNone && b.Kind == VNone:
			eq = tTrue
		case a.Kind == VNone:
			eq = e.isNil(b)
		case b.Kind == VNone:
			eq = e.isNil(a)
		default:
			ta, tb := e.term(a), e.term(b)
			if ta.Sort != tb.Sort {
				return e.fail("comparing %s with %s in %s", ta.Sort, tb.Sort, exprString(x))
			}
			eq = Eq(ta, tb)
		}
		if x.Op == "!=" {
			eq = Not(eq)
		}
		return termVal(eq, boolT)
	case "<", "<=", ">", ">=":
		return termVal(cmpT(x.Op, e.term(a), e.term(b)), boolT)
	}
	typ := a.Typ
	if typ == nil || typ == types.Typ[types.UntypedInt] {
		typ = b.Typ
	}
	ta, tb := e.term(a), e.term(b)
	if ta.Sort != SInt || tb.Sort != SInt {
		return e.fail("arithmetic on non-integers in %s", exprString(x))
	}
	switch x.Op {
	case "+", "-", "*":
		return termVal(arith(x.Op, ta, tb), typ)
	case "/":
		return termVal(app(SInt, "div", ta, tb), typ)
	case "%":
		return termVal(app(SInt, "mod", ta, tb), typ)
	case "&", "|", "^", "<<", ">>", "&^":
		bits := uint(64)
		uns := true
		if typ != nil && isInteger(typ) && typ != types.Typ[types.UntypedInt] {
			bits = intBits(typ)
			uns = isUnsigned(typ)
		}
		return termVal(e.r.bitop(x.Op, ta, tb, bits, uns), typ)
	}
	return e.fail("binary %s unsupported", x.Op)
}

func (e *Env) isNil(v Val) Term {
	t := e.term(v)
	switch t.Sort {
	case SInt:
		return Eq(t, mkInt(0))
	case SSlice:
		return Eq(slBase(t), mkInt(0))
	case SIface:
		return Eq(ifTag(t), mkInt(0))
	}
	e.fail("nil comparison on sort %s", t.Sort)
	return tTrue
}

func (e *Env) index(x *EIndex) Val {
	r := e.r
	if id, ok := x.X.(*EIdent); ok && e.pkg != nil {
		if _, bound := e.vars[id.Name]; !bound {
			if obj, ok := e.pkg.Scope().Lookup(id.Name).(*types.Var); ok {
				if _, isArr := obj.Type().Underlying().(*types.Array); isArr {
					if l := r.specLoc(e, x); l != nil {
						return r.load(e.state(), l)
					}
				}
			}
		}
	}
	v := e.eval(x.X)
	i := e.term(e.eval(x.I))
	if v.Kind == VTerm {
		switch {
		case v.T.Sort == SSlice:
			var et types.Type = types.Typ[types.Int]
			if v.Typ != nil {
				if s, ok := v.Typ.Underlying().(*types.Slice); ok {
					et = s.Elem()
				}
			}
			comp, _ := r.elemComp(et)
			m := r.heapGet(e.state(), comp)
			cell := Select(Select(m, slBase(v.T)), Add(slOff(v.T), i))
			e.cellRange(cell, et)
			return termVal(cell, et)
		case v.T.Sort == SInt && v.Typ != nil && isArrayType(v.Typ):
			// an array value (or pointer to array): a reference to its row in the element memory
			at := arrayOf(v.Typ)
			comp, _ := r.elemComp(at.Elem())
			cell := Select(Select(r.heapGet(e.state(), comp), v.T), i)
			e.cellRange(cell, at.Elem())
			return termVal(cell, at.Elem())
		case v.T.Sort == SStr:
			return termVal(app(SInt, "str.at_", v.T, i), types.Typ[types.Uint8])
		case strings.HasPrefix(v.T.Sort, "(Array "):
			return termVal(Select(v.T, i), nil)
		case v.Typ != nil:
			if m, ok := v.Typ.Underlying().(*types.Map); ok {
				// Go semantics: the zero value when the map is nil or has no such key (as the code's own lookups)
				hasc, valc := r.mapComps(m)
				k := i
				has := And(Not(Eq(v.T, mkInt(0))), Select(Select(r.heapGet(e.state(), hasc), v.T), k))
				return termVal(Ite(has, Select(Select(r.heapGet(e.state(), valc), v.T), k), zeroOf(m.Elem())), m.Elem())
			}
		}
	}
	return e.fail("cannot index %s", exprString(x.X))
}

func (e *Env) selector(x *ESel) Val {
	r := e.r
	// qualified identifier?
	if id, ok := x.X.(*EIdent); ok && e.pkg != nil {
		if _, bound := e.vars[id.Name]; !bound && (e.fr == nil || e.fr.lookupLocal(id.Name, e.pos) == nil) {
			if _, isParam := e.oldVars[id.Name]; !isParam {
				for _, imp := range e.pkg.Imports() {
					if imp.Name() == id.Name {
						obj := imp.Scope().Lookup(x.Sel)
						if obj == nil {
							return e.fail("no %s.%s", id.Name, x.Sel)
						}
						return e.object(obj)
					}
				}
				// packages by short name anywhere in the program (for trusted specs)
				if p := r.findPackage(id.Name); p != nil {
					if obj := p.Scope().Lookup(x.Sel); obj != nil {
						return e.object(obj)
					}
				}
			}
		}
	}
	v := e.eval(x.X)
	l := r.fieldByName(e.state(), v, x.Sel)
	if l == nil {
		return e.fail("no field %s in %s", x.Sel, exprString(x.X))
	}
	if l.Typ != nil {
		if _, inline := l.Typ.Underlying().(*types.Struct); inline && l.Kind == LComp {
			// a struct stored inline: designate it, its fields are selected next
			return locVal(l, types.NewPointer(l.Typ))
		}
		if _, isArr := l.Typ.Underlying().(*types.Array); isArr && l.Kind == LElem {
			// an array stored inline: its row reference (indexable)
			return termVal(l.Base, l.Typ)
		}
	}
	return r.load(e.state(), l)
}

func (e *Env) quant(x *EQuant) Val {
	r := e.r
	ne := *e
	ne.vars = make(map[string]Val, len(e.vars)+len(x.Vars))
	for k, v := range e.vars {
		ne.vars[k] = v
	}
	var decl []string
	for _, qv := range x.Vars {
		var typ types.Type = types.Typ[types.Int]
		srt := ""
		if strings.HasPrefix(qv.Type, "(") || qv.Type == "Slice" || qv.Type == "Iface" {
			srt = qv.Type // a raw SMT sort
			typ = nil
		} else if qv.Type != "" && qv.Type != "int" {
			if t := r.resolveType(e.pkg, qv.Type); t != nil {
				typ = t
			} else {
				return e.fail("unknown type %q in quantifier", qv.Type)
			}
		}
		if srt == "" {
			srt = sortOf(typ)
		}
		r.ctx.nfresh++
		name := fmt.Sprintf("q.%s!%d", qv.Name, r.ctx.nfresh)
		decl = append(decl, fmt.Sprintf("(%s %s)", name, srt))
		ne.vars[qv.Name] = termVal(Term{name, srt}, typ)
	}
	body := ne.evalBool(x.Body)
	var pats []string
	for _, t := range x.Triggers {
		ps, ok := r.liftForPattern(ne.term(ne.eval(t)).S, decl)
		if !ok {
			pats = nil // a trigger we cannot express: let the solver choose
			break
		}
		pats = append(pats, ps)
	}
	if ne.err != nil && e.err == nil {
		e.err = ne.err
	}
	q := "exists"
	if x.Forall {
		q = "forall"
	}
	if len(pats) > 0 {
		return termVal(Term{fmt.Sprintf("(%s (%s) (! %s :pattern (%s)))", q, strings.Join(decl, " "), body.S, strings.Join(pats, " ")), SBool}, types.Typ[types.Bool])
	}
	return termVal(Term{fmt.Sprintf("(%s (%s) %s)", q, strings.Join(decl, " "), body.S), SBool}, types.Typ[types.Bool])
}

func (e *Env) call(x *ECall) Val {
	r := e.r
	boolT := types.Typ[types.Bool]
	intT := types.Typ[types.Int]
	name := ""
	if id, ok := x.Fun.(*EIdent); ok {
		name = id.Name
	}
	argN := func(n int) bool {
		if len(x.Args) != n {
			e.fail("%s expects %d arguments", name, n)
			return false
		}
		return true
	}
	switch name {
	case "old":
		if !argN(1) {
			return e.fail("old")
		}
		ne := *e
		ne.inOld = true
		ne.fr = nil
		v := ne.eval(x.Args[0])
		if ne.err != nil && e.err == nil {
			e.err = ne.err
		}
		return v
	case "len", "cap":
		if !argN(1) {
			return e.fail(name)
		}
		v := e.eval(x.Args[0])
		t := e.term(v)
		switch t.Sort {
		case SSlice:
			if name == "len" {
				return termVal(slLen(t), intT)
			}
			return termVal(slCap(t), intT)
		case SStr:
			return termVal(app(SInt, "str.len_", t), intT)
		case SInt:
			if v.Typ != nil {
				if m, ok := v.Typ.Underlying().(*types.Map); ok {
					return termVal(Select(r.heapGet(e.state(), r.mapLenComp(m)), t), intT)
				}
			}
		}
		return e.fail("len of %s", exprString(x.Args[0]))
	case "base", "off":
		v := e.eval(x.Args[0])
		t := e.term(v)
		if t.Sort != SSlice {
			return e.fail("%s of non-slice", name)
		}
		if name == "base" {
			return termVal(slBase(t), intT)
		}
		return termVal(slOff(t), intT)
	case "mem":
		// mem(s, j): byte at absolute position j of s's backing array
		if !argN(2) {
			return e.fail("mem")
		}
		v := e.eval(x.Args[0])
		j := e.term(e.eval(x.Args[1]))
		var et types.Type = types.Typ[types.Uint8]
		if v.Typ != nil {
			if s, ok := v.Typ.Underlying().(*types.Slice); ok {
				et = s.Elem()
			}
		}
		comp, _ := r.elemComp(et)
		mc := Select(Select(r.heapGet(e.state(), comp), slBase(e.term(v))), j)
		if _, isStruct := et.Underlying().(*types.Struct); isStruct {
			e.cellRange(mc, et)
		}
		return termVal(mc, et)
	case "as", "istype":
		// as(x, "T"): payload of interface value x viewed as T; istype(x, "T"): dynamic type test
		if !argN(2) {
			return e.fail(name)
		}
		v := e.eval(x.Args[0])
		ts, ok := x.Args[1].(*EStr)
		if !ok {
			return e.fail("%s needs a type string", name)
		}
		typ := r.resolveType(e.pkg, ts.V)
		if typ == nil {
			return e.fail("unknown type %q", ts.V)
		}
		t := e.term(v)
		if t.Sort != SIface {
			return e.fail("%s on a non-interface value", name)
		}
		if name == "istype" {
			return termVal(Eq(ifTag(t), r.typeTag(typ)), boolT)
		}
		switch sortOf(typ) {
		case SInt:
			return termVal(ifVal(t), typ)
		case SBool:
			return termVal(Eq(ifVal(t), mkInt(1)), typ)
		}
		un := "unbox." + sanitize(sortOf(typ))
		r.ctx.DeclareOnce(un, fmt.Sprintf("(declare-fun %s (Int) %s)", un, sortOf(typ)))
		return termVal(app(sortOf(typ), un, ifVal(t)), typ)
	case "row":
		// row(s): the backing array of slice s (an SMT array indexed by absolute position)
		if !argN(1) {
			return e.fail("row")
		}
		v := e.eval(x.Args[0])
		var et types.Type = types.Typ[types.Uint8]
		if v.Typ != nil {
			if s, ok := v.Typ.Underlying().(*types.Slice); ok {
				et = s.Elem()
			}
		}
		comp, _ := r.elemComp(et)
		return termVal(Select(r.heapGet(e.state(), comp), slBase(e.term(v))), nil)
	case "box":
		// box(q, "T"): the value stored in the box of type T that pointer q designates
		if !argN(2) {
			return e.fail("box")
		}
		q := e.term(e.eval(x.Args[0]))
		ts, ok := x.Args[1].(*EStr)
		if !ok {
			return e.fail("box needs a type string")
		}
		typ := r.resolveType(e.pkg, ts.V)
		if typ == nil {
			return e.fail("unknown type %q", ts.V)
		}
		comp, _ := r.boxComp(typ)
		return termVal(Select(r.heapGet(e.state(), comp), q), typ)
	case "bytes_row":
		// bytes_row(base): the whole backing array identified by base (an SMT array)
		if !argN(1) {
			return e.fail("bytes_row")
		}
		b := e.term(e.eval(x.Args[0]))
		comp, _ := r.elemComp(types.Typ[types.Uint8])
		return termVal(Select(r.heapGet(e.state(), comp), b), nil)
	case "bytes_at":
		// bytes_at(base, j): byte j of the backing array identified by base
		if !argN(2) {
			return e.fail("bytes_at")
		}
		b := e.term(e.eval(x.Args[0]))
		j := e.term(e.eval(x.Args[1]))
		comp, _ := r.elemComp(types.Typ[types.Uint8])
		return termVal(Select(Select(r.heapGet(e.state(), comp), b), j), types.Typ[types.Uint8])
	case "memold":
		// memold(s, j): s is evaluated in the pre-state and its backing array is read in the pre-state; j is an
		// absolute position evaluated in the current environment
		if !argN(2) {
			return e.fail("memold")
		}
		ne := *e
		ne.inOld = true
		ne.fr = nil
		v := ne.eval(x.Args[0])
		if ne.err != nil && e.err == nil {
			e.err = ne.err
		}
		j := e.term(e.eval(x.Args[1]))
		var et types.Type = types.Typ[types.Uint8]
		if v.Typ != nil {
			if s, ok := v.Typ.Underlying().(*types.Slice); ok {
				et = s.Elem()
			}
		}
		comp, _ := r.elemComp(et)
		ost := e.old
		if ost == nil {
			ost = e.st
		}
		return termVal(Select(Select(r.heapGet(ost, comp), slBase(e.term(v))), j), et)
	case "seg":
		// seg(a, i, b, j, n): a[i..i+n) == b[j..j+n) pointwise; a is read in the current state, b too
		if !argN(5) {
			return e.fail("seg")
		}
		a := e.eval(x.Args[0])
		i := e.term(e.eval(x.Args[1]))
		b := e.eval(x.Args[2])
		j := e.term(e.eval(x.Args[3]))
		n := e.term(e.eval(x.Args[4]))
		return termVal(e.segEq(a, i, b, j, n), boolT)
	case "int", "int64", "int32", "int16", "int8", "uint", "uint64", "uint32", "uint16", "uint8", "byte", "uintptr":
		if !argN(1) {
			return e.fail(name)
		}
		v := e.eval(x.Args[0])
		tn := name
		if tn == "byte" {
			tn = "uint8"
		}
		typ := types.Universe.Lookup(tn).Type()
		src := v.Typ
		if src == nil || src == types.Typ[types.UntypedInt] {
			src = nil
		}
		return termVal(r.convertInt(e.term(v), src, typ), typ)
	case "min", "max":
		if !argN(2) {
			return e.fail(name)
		}
		a := e.term(e.eval(x.Args[0]))
		b := e.term(e.eval(x.Args[1]))
		if name == "min" {
			return termVal(Ite(Le(a, b), a, b), intT)
		}
		return termVal(Ite(Ge(a, b), a, b), intT)
	case "holds":
		// holds(c.mux)
		if !argN(1) {
			return e.fail("holds")
		}
		sel, ok := x.Args[0].(*ESel)
		if !ok {
			return e.fail("holds needs obj.mutex")
		}
		obj := e.eval(sel.X)
		comp := r.heldComp(obj.Typ, sel.Sel)
		if comp == "" {
			return e.fail("holds: cannot name mutex %s", exprString(x.Args[0]))
		}
		return termVal(Select(r.heapGet(e.state(), comp), e.term(obj)), boolT)
	case "fresh":
		// fresh(p): allocated during this call
		if !argN(1) || e.old == nil {
			return e.fail("fresh needs one argument and a pre-state")
		}
		v := e.eval(x.Args[0])
		t := e.term(v)
		if t.Sort == SSlice {
			t = slBase(t)
		}
		if t.Sort == SIface {
			t = ifVal(t)
		}
		return termVal(Gt(t, r.heapGet(e.old, "$top")), boolT)
	case "alloc":
		// alloc(p): p designates an object that exists in the current state (or is nil)
		if !argN(1) {
			return e.fail("alloc")
		}
		v := e.eval(x.Args[0])
		t := e.term(v)
		if t.Sort == SSlice {
			t = slBase(t)
		}
		return termVal(Le(t, r.heapGet(e.state(), "$top")), boolT)
	case "tag":
		v := e.eval(x.Args[0])
		return termVal(ifTag(e.term(v)), intT)
	case "has":
		// has(m, k): map membership
		if !argN(2) {
			return e.fail("has")
		}
		m := e.eval(x.Args[0])
		k := e.term(e.eval(x.Args[1]))
		mt, ok := m.Typ.Underlying().(*types.Map)
		if !ok {
			return e.fail("has on non-map")
		}
		hasc, _ := r.mapComps(mt)
		return termVal(Select(Select(r.heapGet(e.state(), hasc), e.term(m)), k), boolT)
	case "ite":
		if !argN(3) {
			return e.fail("ite")
		}
		c := e.evalBool(x.Args[0])
		a := e.eval(x.Args[1])
		b := e.eval(x.Args[2])
		return termVal(Ite(c, e.term(a), e.term(b)), a.Typ)
	case "str":
		// str(s): the string made of the bytes of slice s in the current state
		v := e.eval(x.Args[0])
		return termVal(r.strOfSlice(e.state(), e.term(v)), types.Typ[types.String])
	}
	// named predicate
	if p := r.lookupPred(e.specPkg, name); p != nil {
		if len(p.Params) != len(x.Args) {
			return e.fail("predicate %s expects %d arguments", name, len(p.Params))
		}
		ne := *e
		ne.vars = make(map[string]Val, len(e.vars)+len(p.Params))
		for k, v := range e.vars {
			ne.vars[k] = v
		}
		for i, prm := range p.Params {
			ne.vars[prm.Name] = e.eval(x.Args[i])
		}
		ne.fr = nil // predicates are closed over their parameters
		ne.oldVars = nil
		v := ne.eval(p.Body)
		if ne.err != nil && e.err == nil {
			e.err = fmt.Errorf("in predicate %s: %v", name, ne.err)
		}
		return v
	}
	// ghost component used as a function: live(p)
	if srt, ok := r.specs.Ghosts[name]; ok && len(x.Args) == 1 {
		comp := "ghost." + name
		r.regComp(comp, srt)
		return termVal(Select(r.heapGet(e.state(), comp), e.term(e.eval(x.Args[0]))), nil)
	}
	// uninterpreted spec function declared via ghost "fun name : (S1 S2) R"
	if sig, ok := r.specs.Ghosts["fun "+name]; ok {
		return e.uninterp(name, sig, x.Args)
	}
	return e.fail("unknown function %q in contract", exprString(x.Fun))
}

func (e *Env) uninterp(name, sig string, args []Expr) Val {
	r := e.r
	// sig: "(Int Int) Bool"
	k := strings.LastIndex(sig, ")")
	if !strings.HasPrefix(sig, "(") || k < 0 {
		return e.fail("bad signature for spec function %s", name)
	}
	res := strings.TrimSpace(sig[k+1:])
	fn := "spec." + name
	r.ctx.DeclareOnce(fn, fmt.Sprintf("(declare-fun %s %s %s)", fn, sig[:k+1], res))
	var ts []Term
	for _, a := range args {
		ts = append(ts, e.term(e.eval(a)))
	}
	return termVal(app(res, fn, ts...), nil)
}

// segEq: forall k in [0,n): a[i+k] == b[j+k]
func (e *Env) segEq(a Val, i Term, b Val, j Term, n Term) Term {
	r := e.r
	ta, tb := e.term(a), e.term(b)
	if ta.Sort != SSlice || tb.Sort != SSlice {
		e.fail("seg needs slices")
		return tTrue
	}
	var et types.Type = types.Typ[types.Uint8]
	if a.Typ != nil {
		if s, ok := a.Typ.Underlying().(*types.Slice); ok {
			et = s.Elem()
		}
	}
	comp, _ := r.elemComp(et)
	ma := Select(r.heapGet(e.state(), comp), slBase(ta))
	mb := Select(r.heapGet(e.state(), comp), slBase(tb))
	r.ctx.nfresh++
	k := Term{fmt.Sprintf("q.k!%d", r.ctx.nfresh), SInt}
	body := Implies(And(Le(mkInt(0), k), Lt(k, n)),
		Eq(Select(ma, Add(Add(slOff(ta), i), k)), Select(mb, Add(Add(slOff(tb), j), k))))
	return Term{fmt.Sprintf("(forall ((%s Int)) %s)", k.S, body.S), SBool}
}

func (r *Run) lookupPred(pkg, name string) *Pred {
	if p, ok := r.specs.Preds[pkg+"."+name]; ok {
		return p
	}
	if p, ok := r.specs.Preds[name]; ok {
		return p
	}
	return nil
}

func (r *Run) findPackage(name string) *types.Package {
	var found *types.Package
	for _, sp := range r.prog.SSA.AllPackages() {
		if sp.Pkg.Name() == name || sp.Pkg.Path() == name {
			if found == nil || len(sp.Pkg.Path()) < len(found.Path()) {
				found = sp.Pkg
			}
		}
	}
	return found
}

func (r *Run) resolveType(pkg *types.Package, s string) types.Type {
	s = strings.TrimSpace(s)
	if pkg == nil {
		return nil
	}
	tv, err := types.Eval(r.prog.Fset, pkg, token.NoPos, s)
	if err == nil && tv.IsType() {
		return tv.Type
	}
	// pkg-qualified names from other packages
	if strings.HasPrefix(s, "*") {
		if t := r.resolveType(pkg, s[1:]); t != nil {
			return types.NewPointer(t)
		}
		return nil
	}
	if k := strings.LastIndex(s, "."); k > 0 {
		if p := r.findPackage(s[:k]); p != nil {
			if o := p.Scope().Lookup(s[k+1:]); o != nil {
				if tn, ok := o.(*types.TypeName); ok {
					return tn.Type()
				}
			}
		}
	}
	return nil
}

// specLoc: the location designated by a contract expression (x.f, x[i], *p, global).
func (r *Run) specLoc(e *Env, x Expr) *Loc {
	switch x := x.(type) {
	case *ESel:
		v := e.eval(x.X)
		return r.fieldByName(e.state(), v, x.Sel)
	case *EUnary:
		if x.Op == "*" {
			return r.derefLoc(e.eval(x.X))
		}
	case *EIndex:
		// element of a slice or of a global array
		if id, ok := x.X.(*EIdent); ok && e.pkg != nil {
			if _, bound := e.vars[id.Name]; !bound {
				if obj, ok := e.pkg.Scope().Lookup(id.Name).(*types.Var); ok {
					if arr, ok := obj.Type().Underlying().(*types.Array); ok {
						gl := r.globalLoc(obj)
						i := e.term(e.eval(x.I))
						if gl.Kind == LElem {
							return &Loc{Kind: LElem, Comp: gl.Comp, Sort: gl.Sort, Base: gl.Base, Off: Add(gl.Off, i), Typ: arr.Elem()}
						}
					}
				}
			}
		}
		v := e.eval(x.X)
		if v.Kind == VTerm && v.T.Sort == SSlice {
			var et types.Type = types.Typ[types.Uint8]
			if v.Typ != nil {
				if s, ok := v.Typ.Underlying().(*types.Slice); ok {
					et = s.Elem()
				}
			}
			comp, srt := r.elemComp(et)
			i := e.term(e.eval(x.I))
			return &Loc{Kind: LElem, Comp: comp, Sort: srt, Base: slBase(v.T), Off: Add(slOff(v.T), i), Typ: et}
		}
	case *EIdent:
		if e.fr != nil {
			if l := e.fr.lookupLocal(x.Name, e.pos); l != nil {
				return l
			}
		}
		if e.pkg != nil {
			if obj, ok := e.pkg.Scope().Lookup(x.Name).(*types.Var); ok {
				return r.globalLoc(obj)
			}
		}
	}
	return nil
}

// evalBoolParts evaluates a clause and returns its top-level conjuncts (through && and predicate calls), so that
// each becomes its own, smaller obligation.
func (e *Env) evalBoolParts(x Expr) []Term {
	switch x := x.(type) {
	case *EBinary:
		if x.Op == "&&" {
			return append(e.evalBoolParts(x.X), e.evalBoolParts(x.Y)...)
		}
	case *ECall:
		if id, ok := x.Fun.(*EIdent); ok {
			if p := e.r.lookupPred(e.specPkg, id.Name); p != nil && len(p.Params) == len(x.Args) {
				ne := *e
				ne.vars = make(map[string]Val, len(e.vars)+len(p.Params))
				for k, v := range e.vars {
					ne.vars[k] = v
				}
				for i, prm := range p.Params {
					ne.vars[prm.Name] = e.eval(x.Args[i])
				}
				ne.fr = nil
				ne.oldVars = nil
				parts := ne.evalBoolParts(p.Body)
				if ne.err != nil && e.err == nil {
					e.err = fmt.Errorf("in predicate %s: %v", id.Name, ne.err)
				}
				return parts
			}
		}
	}
	return []Term{e.evalBool(x)}
}

// liftForPattern makes a term usable as a quantifier pattern: boolean structure (ite and friends) is not allowed
// in patterns, so every (ite ...) sub-term that does not mention a bound variable is given a name.
func (r *Run) liftForPattern(s string, decl []string) (string, bool) {
	var bound []string
	for _, d := range decl {
		// "(name Sort)"
		if k := strings.IndexByte(d, ' '); k > 1 {
			bound = append(bound, d[1:k])
		}
	}
	for iter := 0; iter < 20; iter++ {
		k := strings.Index(s, "(ite ")
		if k < 0 {
			break
		}
		depth := 0
		end := -1
		for i := k; i < len(s); i++ {
			if s[i] == '(' {
				depth++
			} else if s[i] == ')' {
				depth--
				if depth == 0 {
					end = i + 1
					break
				}
			}
		}
		if end < 0 {
			return "", false
		}
		sub := s[k:end]
		for _, b := range bound {
			if strings.Contains(sub, b) {
				return "", false
			}
		}
		// the sort of the ite is the sort of its branches: find it from a fresh definition via the solver's own
		// inference is not possible here, so name it through a declared constant with an equation
		name := r.ctx.nameFor(sub)
		if name == "" {
			return "", false
		}
		s = s[:k] + name + s[end:]
	}
	for _, bad := range []string{"(not ", "(and ", "(or ", "(=> ", "(= ", "(<= ", "(< ", "(>= ", "(> "} {
		if strings.Contains(s, bad) {
			return "", false
		}
	}
	// names of macro definitions that expand to boolean structure (a merged slice value, say) are replaced by
	// constants equal to them
	for _, sym := range lineSymbols(s) {
		if r.ctx.hasBoolStructure(sym, map[string]bool{}) {
			op := r.ctx.opaqueFor(sym)
			s = replaceSymbol(s, sym, op)
		}
	}
	return s, true
}

// replaceSymbol replaces whole-token occurrences of a symbol in an s-expression.
func replaceSymbol(s, sym, by string) string {
	var b strings.Builder
	i := 0
	for i < len(s) {
		k := strings.Index(s[i:], sym)
		if k < 0 {
			b.WriteString(s[i:])
			break
		}
		k += i
		end := k + len(sym)
		okL := k == 0 || s[k-1] == '(' || s[k-1] == ' '
		okR := end == len(s) || s[end] == ')' || s[end] == ' '
		b.WriteString(s[i:k])
		if okL && okR {
			b.WriteString(by)
		} else {
			b.WriteString(sym)
		}
		i = end
	}
	return b.String()
}

// cellRange: a memory cell of a machine integer type holds a value of that type - asserted for ground cells that a
// contract expression reads (the code's own loads get the same fact when they are executed).
func (e *Env) cellRange(cell Term, et types.Type) {
	if et == nil || strings.Contains(cell.S, "q.") {
		return
	}
	if _, isStruct := et.Underlying().(*types.Struct); isStruct {
		// a struct element is a reference to storage that exists in the state it is read in
		e.r.ctx.Assert(Le(cell, e.r.heapGet(e.state(), "$top")))
		return
	}
	if !isInteger(et) {
		return
	}
	lo, hi := intRange(et)
	e.r.ctx.Assert(And(Le(mkBig(lo), cell), Le(cell, mkBig(hi))))
}

func missingName(err error) bool {
	m := err.Error()
	return strings.Contains(m, "no field") || strings.Contains(m, "unknown identifier")
}

func arrayOf(t types.Type) *types.Array {
	if p, ok := t.Underlying().(*types.Pointer); ok {
		t = p.Elem()
	}
	a, _ := t.Underlying().(*types.Array)
	return a
}

func isArrayType(t types.Type) bool { return arrayOf(t) != nil }
