package main

import (
	"go/token"
	"go/types"
	"sort"

	"golang.org/x/tools/go/ssa"
)

type loopInfo struct {
	header  *ssa.BasicBlock
	body    map[*ssa.BasicBlock]bool
	ordinal int
}

type cfgInfo struct {
	rpo    []*ssa.BasicBlock
	loops  map[*ssa.BasicBlock]*loopInfo
	isBack map[[2]int]bool // (from,to) block indices
}

var cfgCache = map[*ssa.Function]*cfgInfo{}

func analyzeCFG(fn *ssa.Function) *cfgInfo {
	if c, ok := cfgCache[fn]; ok {
		return c
	}
	c := &cfgInfo{loops: map[*ssa.BasicBlock]*loopInfo{}, isBack: map[[2]int]bool{}}
	if len(fn.Blocks) == 0 {
		cfgCache[fn] = c
		return c
	}
	// back edges: target dominates source
	for _, b := range fn.Blocks {
		for _, s := range b.Succs {
			if s.Dominates(b) {
				c.isBack[[2]int{b.Index, s.Index}] = true
				li := c.loops[s]
				if li == nil {
					li = &loopInfo{header: s, body: map[*ssa.BasicBlock]bool{s: true}}
					c.loops[s] = li
				}
				// natural loop: nodes that reach b without passing through s
				stack := []*ssa.BasicBlock{b}
				for len(stack) > 0 {
					n := stack[len(stack)-1]
					stack = stack[:len(stack)-1]
					if li.body[n] {
						continue
					}
					li.body[n] = true
					for _, p := range n.Preds {
						stack = append(stack, p)
					}
				}
			}
		}
	}
	var hs []*ssa.BasicBlock
	for h := range c.loops {
		hs = append(hs, h)
	}
	sort.Slice(hs, func(i, j int) bool { return hs[i].Index < hs[j].Index })
	for i, h := range hs {
		c.loops[h].ordinal = i + 1
	}
	// reverse postorder ignoring back edges
	seen := map[*ssa.BasicBlock]bool{}
	var post []*ssa.BasicBlock
	var dfs func(b *ssa.BasicBlock)
	dfs = func(b *ssa.BasicBlock) {
		seen[b] = true
		for _, s := range b.Succs {
			if c.isBack[[2]int{b.Index, s.Index}] || seen[s] {
				continue
			}
			dfs(s)
		}
		post = append(post, b)
	}
	dfs(fn.Blocks[0])
	for i := len(post) - 1; i >= 0; i-- {
		c.rpo = append(c.rpo, post[i])
	}
	cfgCache[fn] = c
	return c
}

// lookupLocal resolves a source-level variable name visible at pos to its cell / box location.
func (fr *Frame) lookupLocal(name string, pos token.Pos) *Loc {
	cands := fr.allocsNamed(name)
	if len(cands) == 0 {
		// captured variable of an enclosing function
		for _, fv := range fr.fn.FreeVars {
			if fv.Name() == name {
				v := fr.free[fv]
				if v.Kind == VLoc {
					return v.Loc
				}
				if v.Kind == VTerm {
					return fr.runDeref(v)
				}
			}
		}
		return nil
	}
	var best *ssa.Alloc
	if len(cands) > 1 && fr.curLoop != nil {
		// compiler-generated names (rangeindex, ...) repeat: prefer the one the current loop uses
		var used []*ssa.Alloc
		for _, a := range cands {
			for _, ref := range *a.Referrers() {
				if ref.Block() != nil && fr.curLoop.body[ref.Block()] {
					used = append(used, a)
					break
				}
			}
		}
		if len(used) == 1 {
			cands = used
		}
	}
	if len(cands) == 1 {
		best = cands[0]
	} else {
		// innermost declaration that precedes pos and whose scope contains pos
		var scope *types.Scope
		if fr.fn.Pkg != nil && pos.IsValid() {
			scope = fr.fn.Pkg.Pkg.Scope().Innermost(pos)
		}
		if scope != nil {
			if _, obj := scope.LookupParent(name, pos); obj != nil {
				for _, a := range cands {
					if a.Pos() == obj.Pos() {
						best = a
					}
				}
			}
		}
		if best == nil {
			for _, a := range cands {
				if a.Pos() <= pos && (best == nil || a.Pos() > best.Pos()) {
					best = a
				}
			}
		}
		if best == nil {
			best = cands[0]
		}
	}
	return fr.allocLoc(best)
}

func (fr *Frame) allocsNamed(name string) []*ssa.Alloc {
	var out []*ssa.Alloc
	for _, b := range fr.fn.Blocks {
		for _, ins := range b.Instrs {
			if a, ok := ins.(*ssa.Alloc); ok && a.Comment == name {
				out = append(out, a)
			}
		}
	}
	return out
}
