package main

import (
	"fmt"
	"os"
	"go/constant"
	"go/token"
	"go/types"
	"math/big"
	"sort"
	"strings"

	"golang.org/x/tools/go/ssa"
)

const maxInlineDepth = 6

type blockOut struct {
	st    *State
	reach Term
	cond  Term // branch condition for If terminators
	isIf  bool
}

func (r *Run) newFrame(fn *ssa.Function, parent *Frame) *Frame {
	r.nframe++
	fr := &Frame{id: r.nframe, fn: fn, regs: map[ssa.Value]Val{}, parent: parent, free: map[*ssa.FreeVar]Val{},
		callOrd: map[string]int{}, safeOrd: map[string]int{}, run: r}
	if parent != nil {
		fr.inlineDepth = parent.inlineDepth + 1
		fr.autoInline = parent.autoInline
	}
	if r.nextAutoInline {
		fr.autoInline = true
		r.nextAutoInline = false
	}
	return fr
}

func (fr *Frame) runDeref(v Val) *Loc { return fr.run.derefLoc(v) }

func (fr *Frame) allocLoc(a *ssa.Alloc) *Loc {
	if isCellAlloc(a) {
		return &Loc{Kind: LCell, Cell: cellKey{fr.id, a}, Typ: allocElem(a)}
	}
	v, ok := fr.regs[a]
	if !ok {
		return nil
	}
	return fr.run.derefLoc(v)
}

func allocElem(a *ssa.Alloc) types.Type {
	return a.Type().Underlying().(*types.Pointer).Elem()
}

// isCellAlloc: non-escaping scalar locals are tracked as cells in the symbolic state.
func isCellAlloc(a *ssa.Alloc) bool {
	if a.Heap {
		return false
	}
	switch allocElem(a).Underlying().(type) {
	case *types.Struct, *types.Array:
		return false
	}
	return true
}

func (r *Run) posString(p token.Pos) string {
	if !p.IsValid() {
		return ""
	}
	ps := r.prog.Fset.Position(p)
	return fmt.Sprintf("%s:%d", strings.TrimPrefix(ps.Filename, repoDir+"/"), ps.Line)
}

// ---------------------------------------------------------------- obligations

func (r *Run) oblige(fr *Frame, kind, sub, name string, reach Term, goal Term, props []string, pos token.Pos, text string) {
	if r.discover {
		return
	}
	if goal.IsTrue() {
		// trivially true after simplification: still counts as a discharged obligation
	}
	top := r.top
	// the same program point can be reached more than once (a deferred call runs at every return): number the copies
	if r.nameCount == nil {
		r.nameCount = map[string]int{}
	}
	r.nameCount[name]++
	if k := r.nameCount[name]; k > 1 {
		name = fmt.Sprintf("%s~%d", name, k)
	}
	o := &Obligation{
		Name: funcKey(top.fn) + "/" + name, Kind: kind, Sub: sub, Func: funcKey(top.fn), Props: props,
		Pos: r.posString(pos), Text: text, mark: r.ctx.Mark(), hyps: []Term{reach}, goal: goal, ctx: r.ctx,
	}
	if kind == "safe" && fr == r.top && r.topReplay != nil {
		o.replay = r.topReplay
	}
	if (kind == "pre" || kind == "assert") && !reach.IsTrue() {
		// vacuity guard: the program point itself must be reachable under the assumptions made so far
		site := name
		if k := strings.LastIndex(site, "."); k > 0 && kind == "pre" {
			site = site[:k]
		}
		for strings.Count(site, ".") > 0 && kind == "pre" {
			// pre@callee#k.label.part -> pre@callee#k
			k := strings.LastIndex(site, ".")
			if strings.Contains(site[:k], "#") {
				site = site[:k]
			} else {
				break
			}
		}
		if r.coverSites == nil {
			r.coverSites = map[string]bool{}
		}
		if !r.coverSites[site] {
			r.coverSites[site] = true
			r.obls = append(r.obls, &Obligation{Name: funcKey(top.fn) + "/reach@" + site, Kind: "cover", Func: funcKey(top.fn), Props: props,
				Pos: r.posString(pos), Text: "this program point is reachable (otherwise the obligations here hold vacuously)", mark: r.ctx.Mark(), hyps: []Term{reach}, goal: tFalse, ctx: r.ctx, Cover: true})
		}
	}
	r.obls = append(r.obls, o)
	// later code may assume it (execution would have panicked / the caller must have ensured it)
	r.ctx.Assert(Implies(reach, goal))
}

func (r *Run) safety(fr *Frame, sub string, reach Term, goal Term, pos token.Pos, text string) {
	if goal.IsTrue() {
		return
	}
	if fr.autoInline {
		// the body of a helper without a contract, expanded in place so that its effects are known: its own panic
		// freedom is not among the claims of the function under verification
		return
	}
	top := r.top
	top.safeOrd[sub]++
	name := fmt.Sprintf("safe@%s#%d", sub, top.safeOrd[sub])
	r.oblige(fr, "safe", sub, name, reach, goal, nil, pos, text)
}

// ---------------------------------------------------------------- frame execution

// execFrame runs the body of fr.fn from (st, reach); return points are collected in fr.rets.
func (r *Run) execFrame(fr *Frame, st0 *State, reach0 Term) {
	fn := fr.fn
	cfg := analyzeCFG(fn)
	outs := map[*ssa.BasicBlock]*blockOut{}
	type loopCtx struct {
		variant Term
		has     bool
	}
	loopVar := map[*ssa.BasicBlock]*loopCtx{}
	savedTag := r.ctx.curTag
	defer func() { r.ctx.curTag = savedTag }()
	for _, b := range cfg.rpo {
		r.ctx.curTag = savedTag
		var conds []Term
		var sts []*State
		var predOf []*ssa.BasicBlock
		if b.Index == 0 {
			conds = []Term{reach0}
			sts = []*State{st0}
			predOf = []*ssa.BasicBlock{nil}
		} else {
			seenPred := map[*ssa.BasicBlock]bool{}
			for _, p := range b.Preds {
				if seenPred[p] || cfg.isBack[[2]int{p.Index, b.Index}] {
					continue
				}
				seenPred[p] = true
				po := outs[p]
				if po == nil {
					continue
				}
				ec := edgeCond(po, p, b)
				if ec.IsFalse() {
					continue
				}
				conds = append(conds, ec)
				sts = append(sts, po.st)
				predOf = append(predOf, p)
			}
		}
		if len(conds) == 0 {
			continue
		}
		for i := range conds {
			conds[i] = r.ctx.Define(fmt.Sprintf("E%d.%d", fr.id, b.Index), conds[i])
		}
		reach := r.ctx.Define(fmt.Sprintf("R%d.%d", fr.id, b.Index), Or(conds...))
		r.ctx.curTag = reach.S
		st := r.mergeStates(conds, sts)
		if li := cfg.loops[b]; li != nil {
			lc := &loopCtx{}
			loopVar[b] = lc
			lc.variant, lc.has = r.loopHead(fr, li, st, reach)
		}
		out := &blockOut{st: st, reach: reach}
		ended := false
		for _, ins := range b.Instrs {
			if phi, ok := ins.(*ssa.Phi); ok {
				var vals []Val
				var pc []Term
				for i, p := range predOf {
					if p == nil {
						continue
					}
					for j, bp := range b.Preds {
						if bp == p {
							vals = append(vals, r.operand(fr, st, phi.Edges[j]))
							pc = append(pc, conds[i])
							break
						}
					}
				}
				if len(vals) == 0 {
					fr.regs[phi] = r.freshTyped("phi", phi.Type(), st)
				} else {
					fr.regs[phi] = r.mergeVals(pc, vals, "phi")
				}
				continue
			}
			var stop bool
			reach, stop = r.execInstr(fr, st, reach, ins, out)
			out.reach = reach
			if stop {
				ended = true
				break
			}
			if r.fatal != "" {
				return
			}
		}
		if ended {
			continue
		}
		outs[b] = out
		// back edges out of this block: invariant preservation
		for _, s := range b.Succs {
			if cfg.isBack[[2]int{b.Index, s.Index}] {
				li := cfg.loops[s]
				ec := edgeCond(out, b, s)
				r.loopBack(fr, li, out.st, ec, loopVar[s].variant, loopVar[s].has)
			}
		}
	}
}

func edgeCond(po *blockOut, p, b *ssa.BasicBlock) Term {
	if !po.isIf {
		return po.reach
	}
	t := p.Succs[0] == b
	f := p.Succs[1] == b
	switch {
	case t && f:
		return po.reach
	case t:
		return And(po.reach, po.cond)
	case f:
		return And(po.reach, Not(po.cond))
	}
	return tFalse
}

// ---------------------------------------------------------------- loops

func (r *Run) loopSpec(fr *Frame, li *loopInfo) *LoopSpec {
	sp := r.specFor(fr.fn)
	if sp == nil {
		return nil
	}
	return sp.Loops[li.ordinal]
}

func (r *Run) specFor(fn *ssa.Function) *FuncSpec {
	return r.specs.Funcs[funcKey(fn)]
}

func (r *Run) loopEnv(fr *Frame, li *loopInfo, st *State) *Env {
	pos := token.NoPos
	for _, ins := range li.header.Instrs {
		if ins.Pos().IsValid() {
			pos = ins.Pos()
			break
		}
	}
	if !pos.IsValid() {
		for b := range li.body {
			for _, ins := range b.Instrs {
				if ins.Pos().IsValid() && (!pos.IsValid() || ins.Pos() < pos) {
					pos = ins.Pos()
				}
			}
		}
	}
	env := r.baseEnv(fr, st)
	env.pos = pos
	return env
}

// baseEnv: names resolve to the frame's locals; old(...) resolves parameters to their entry values.
func (r *Run) baseEnv(fr *Frame, st *State) *Env {
	env := &Env{r: r, vars: map[string]Val{}, oldVars: map[string]Val{}, fr: fr, st: st}
	root := fr
	env.old = root.entry
	for i, p := range fr.fn.Params {
		if i < len(fr.params) {
			env.oldVars[p.Name()] = fr.params[i]
		}
	}
	if fr.fn.Pkg != nil {
		env.pkg = fr.fn.Pkg.Pkg
		env.specPkg = shortPkg(fr.fn.Pkg.Pkg.Path())
	} else if fr.fn.Parent() != nil {
		p := fr.fn
		for p.Parent() != nil {
			p = p.Parent()
		}
		if p.Pkg != nil {
			env.pkg = p.Pkg.Pkg
			env.specPkg = shortPkg(p.Pkg.Pkg.Path())
		}
	}
	return env
}

func (r *Run) loopHead(fr *Frame, li *loopInfo, st *State, reach Term) (Term, bool) {
	ls := r.loopSpec(fr, li)
	fr.curLoop = li
	defer func() { fr.curLoop = nil }()
	// 1. invariant on entry
	if ls != nil {
		env := r.loopEnv(fr, li, st)
		for i, c := range ls.Invariants {
			parts := env.evalBoolParts(c.E)
			if env.err != nil {
				r.fatal = fmt.Sprintf("%s loop %d invariant %d: %v", funcKey(fr.fn), li.ordinal, i+1, env.err)
				return Term{}, false
			}
			for pi, g := range parts {
				name := fmt.Sprintf("%sinv-entry#L%d.%s", r.inlinePrefix(fr), li.ordinal, clauseName(c, i))
				if len(parts) > 1 {
					name += fmt.Sprintf(".%d", pi+1)
				}
				r.oblige(fr, "inv-entry", "", name, reach, g, r.clauseProps(fr, c), li.header.Instrs[0].Pos(), c.Text)
			}
		}
	}
	if ls != nil && ls.HasCarried && !r.discover {
		// structural obligation: which locals carry a value around the back edge
		var bad []string
		allowed := map[string]bool{}
		for _, n := range ls.Carried {
			allowed[n] = true
		}
		for _, n := range loopCarriedLocals(li) {
			if !allowed[n] {
				bad = append(bad, n)
			}
		}
		goal := tTrue
		text := "only " + strings.Join(ls.Carried, ", ") + " carry a value from one iteration of the loop to a later one"
		if len(bad) > 0 {
			goal = tFalse
			text += " (also carried: " + strings.Join(bad, ", ") + ")"
		}
		props := ls.CarriedProps
		if len(props) == 0 {
			props = r.funcProps(fr)
		}
		r.oblige(fr, "carried", "", fmt.Sprintf("%scarried#L%d", r.inlinePrefix(fr), li.ordinal), tTrue, goal, props, li.header.Instrs[0].Pos(), text)
	}
	// 2. havoc everything the loop may write
	r.havocLoop(fr, li, st)
	// 3. assume the invariant
	var variant Term
	has := false
	if ls != nil {
		env := r.loopEnv(fr, li, st)
		for _, c := range ls.Invariants {
			g := env.evalBool(c.E)
			r.ctx.Assert(Implies(reach, g))
		}
		if ls.Decreases != nil {
			v := env.eval(ls.Decreases)
			if env.err != nil {
				r.fatal = fmt.Sprintf("%s loop %d decreases: %v", funcKey(fr.fn), li.ordinal, env.err)
				return Term{}, false
			}
			variant = r.ctx.Define("variant", r.mustTerm(v, "variant"))
			has = true
		}
	}
	return variant, has
}

func (r *Run) loopBack(fr *Frame, li *loopInfo, st *State, ec Term, variant Term, hasVar bool) {
	ls := r.loopSpec(fr, li)
	if ls == nil {
		return
	}
	fr.curLoop = li
	defer func() { fr.curLoop = nil }()
	env := r.loopEnv(fr, li, st)
	// all conjuncts are checked in the state at the back edge; none is assumed for the next
	type pending struct {
		name string
		g    Term
		c    Clause
	}
	var pend []pending
	for i, c := range ls.Invariants {
		parts := env.evalBoolParts(c.E)
		if env.err != nil {
			r.fatal = fmt.Sprintf("%s loop %d invariant %d: %v", funcKey(fr.fn), li.ordinal, i+1, env.err)
			return
		}
		for pi, g := range parts {
			name := fmt.Sprintf("%sinv-step#L%d.%s", r.inlinePrefix(fr), li.ordinal, clauseName(c, i))
			if len(parts) > 1 {
				name += fmt.Sprintf(".%d", pi+1)
			}
			pend = append(pend, pending{name, g, c})
		}
	}
	for _, p := range pend {
		r.oblige(fr, "inv-step", "", p.name, ec, p.g, r.clauseProps(fr, p.c), li.header.Instrs[0].Pos(), p.c.Text)
	}
	if hasVar {
		v := env.eval(ls.Decreases)
		now := r.mustTerm(v, "variant")
		r.oblige(fr, "dec", "", fmt.Sprintf("%sdec#L%d", r.inlinePrefix(fr), li.ordinal), ec, And(Ge(variant, mkInt(0)), Lt(now, variant)), r.funcProps(fr), li.header.Instrs[0].Pos(), "decreases "+exprString(ls.Decreases))
	}
}

func (r *Run) inlinePrefix(fr *Frame) string {
	if fr == r.top {
		return ""
	}
	// name of the inlined function relative to the function under verification
	k := funcKey(fr.fn)
	tk := funcKey(r.top.fn)
	if strings.HasPrefix(k, tk) {
		return k[len(tk):] + "/"
	}
	return "[" + k + "]/"
}

func clauseName(c Clause, i int) string {
	if c.Label != "" {
		return c.Label
	}
	return fmt.Sprintf("%d", i+1)
}

func (r *Run) clauseProps(fr *Frame, c Clause) []string {
	if len(c.Props) > 0 {
		return c.Props
	}
	return r.funcProps(fr)
}

func (r *Run) funcProps(fr *Frame) []string {
	if r.spec != nil {
		return r.spec.Props
	}
	return nil
}

// havocLoop forgets the cells and heap components written anywhere in the loop body.
func (r *Run) havocLoop(fr *Frame, li *loopInfo, st *State) {
	ws := newWriteSet()
	var blocks []*ssa.BasicBlock
	for b := range li.body {
		blocks = append(blocks, b)
	}
	sort.Slice(blocks, func(i, j int) bool { return blocks[i].Index < blocks[j].Index })
	for _, b := range blocks {
		r.scanWrites(fr, b, ws, 0)
	}
	// ghost code attached to this function (and to literals expanded inside the loop) writes ghost state too
	r.scanGhostWritesIn(fr.fn, li.body, ws, map[*ssa.Function]bool{})
	for _, b := range blocks {
		for _, ins := range b.Instrs {
			if mc, ok := ins.(*ssa.MakeClosure); ok {
				r.scanGhostWrites(mc.Fn.(*ssa.Function), ws, map[*ssa.Function]bool{})
			}
		}
	}
	if ws.all {
		// keep cells that are not written
		r.havocAll(st, tTrue)
	}
	for k, typ := range ws.cells {
		st.cells[k] = r.freshTyped("lv."+k.alloc.Comment, typ, st)
	}
	if ws.all {
		// everything was forgotten, except what a callee's unspecified effects can not reach (thread-local ghosts,
		// lock ownership, private boxes): the loop's own writes to those are forgotten here
		var cs []string
		for c := range ws.comps {
			cs = append(cs, c)
		}
		sort.Strings(cs)
		for _, c := range cs {
			if srt, ok := r.compSorts[c]; ok {
				r.heapSet(st, c, r.ctx.Fresh("lh."+c, srt))
			}
		}
	}
	if !ws.all {
		var cs []string
		for c := range ws.comps {
			cs = append(cs, c)
		}
		sort.Strings(cs)
		for _, c := range cs {
			if _, ok := r.compSorts[c]; !ok {
				// a component named by a contract whose sort is not known yet: forget everything (sound)
				dbg("loop write set names unknown component %s in %s: havoc all", c, funcKey(fr.fn))
				r.warn("loop write set names a component of unknown sort (%s): everything havocked", c)
				r.havocAll(st, tTrue)
				for k, typ := range ws.cells {
					st.cells[k] = r.freshTyped("lv."+k.alloc.Comment, typ, st)
				}
				return
			}
			if !ws.wild[c] && strings.HasPrefix(c, "F.") {
				// every write to this component in the loop goes to a loop-invariant object: forget only those
				var idxs []Term
				ok := true
				for _, site := range ws.sites {
					if site.comp != c {
						continue
					}
					t, good := r.resolveInvariantBase(site, st, ws)
					if !good {
						ok = false
						break
					}
					idxs = append(idxs, t)
				}
				if ok && len(idxs) > 0 {
					arr := r.heapGet(st, c)
					seen := map[string]bool{}
					for _, ix := range idxs {
						if seen[ix.S] {
							continue
						}
						seen[ix.S] = true
						arr = Store(arr, ix, r.ctx.Fresh("lh."+c, arrayValSort(r.compSort(c))))
					}
					r.heapSet(st, c, r.ctx.Define("lh."+c, arr))
					continue
				}
			}
			r.heapSet(st, c, r.ctx.Fresh("lh."+c, r.compSort(c)))
		}
		if ws.allocs {
			old := r.heapGet(st, "$top")
			nt := r.ctx.Fresh("ltop", SInt)
			r.ctx.Assert(Ge(nt, old))
			r.heapSet(st, "$top", nt)
		}
	}
}

type writeSite struct {
	comp string
	base ssa.Value
	fr   *Frame
}

type writeSet struct {
	cells  map[cellKey]types.Type
	comps  map[string]bool
	wild   map[string]bool // components with a write whose target object is not a loop-invariant value
	sites  []writeSite     // field writes whose target object is an SSA value (resolved at havoc time)
	all    bool
	allocs bool
}

func newWriteSet() *writeSet {
	return &writeSet{cells: map[cellKey]types.Type{}, comps: map[string]bool{}, wild: map[string]bool{}}
}

func (ws *writeSet) addWild(c string) {
	ws.comps[c] = true
	ws.wild[c] = true
}

func (ws *writeSet) addSite(c string, base ssa.Value, fr *Frame) {
	ws.comps[c] = true
	ws.sites = append(ws.sites, writeSite{c, base, fr})
}

// scanWrites conservatively collects what a block may write (by component).
func (r *Run) scanWrites(fr *Frame, b *ssa.BasicBlock, ws *writeSet, depth int) {
	for _, ins := range b.Instrs {
		switch ins := ins.(type) {
		case *ssa.Store:
			r.scanStoreTarget(fr, ins.Addr, ws)
		case *ssa.Alloc:
			if !isCellAlloc(ins) {
				ws.allocs = true
			} else {
				// a cell declared inside the loop is re-initialised each iteration
				ws.cells[cellKey{fr.id, ins}] = allocElem(ins)
			}
		case *ssa.MakeSlice, *ssa.MakeMap, *ssa.MakeChan, *ssa.MakeClosure:
			ws.allocs = true
		case *ssa.MapUpdate:
			if m, ok := ins.Map.Type().Underlying().(*types.Map); ok {
				h, v := r.mapComps(m)
				ws.addWild(h)
				ws.addWild(v)
				ws.addWild(r.mapLenComp(m))
			}
		case *ssa.Call:
			r.scanCall(fr, &ins.Call, ws, depth)
		case *ssa.Defer:
			r.scanCall(fr, &ins.Call, ws, depth)
		case *ssa.Go:
			// effects of the spawned goroutine are not the loop's
		case *ssa.RunDefers:
		}
	}
}

func (r *Run) scanStoreTarget(fr *Frame, addr ssa.Value, ws *writeSet) {
	switch a := addr.(type) {
	case *ssa.Alloc:
		if isCellAlloc(a) {
			ws.cells[cellKey{fr.id, a}] = allocElem(a)
		} else {
			c, _ := r.boxComp(allocElem(a))
			ws.addWild(c)
		}
	case *ssa.FieldAddr:
		comp := r.fieldAddrComp(a)
		if comp == "" {
			ws.all = true; dbg("ws.all #1 in %s", funcKey(fr.fn))
		} else {
			// the object written: the base of the (possibly nested) FieldAddr chain
			base := a.X
			for {
				if in, ok := base.(*ssa.FieldAddr); ok {
					base = in.X
					continue
				}
				break
			}
			ws.addSite(comp, base, fr)
		}
	case *ssa.IndexAddr:
		var et types.Type
		switch t := a.X.Type().Underlying().(type) {
		case *types.Slice:
			et = t.Elem()
		case *types.Pointer:
			if arr, ok := t.Elem().Underlying().(*types.Array); ok {
				et = arr.Elem()
			}
		}
		if et == nil {
			ws.all = true; dbg("ws.all #2 in %s", funcKey(fr.fn))
			return
		}
		c, _ := r.elemComp(et)
		ws.addWild(c)
	case *ssa.FreeVar:
		// captured variable: its box (or the parent's cell)
		v := fr.free[a]
		if v.Kind == VLoc && v.Loc.Kind == LCell {
			ws.cells[v.Loc.Cell] = v.Loc.Typ
			return
		}
		c, _ := r.boxComp(a.Type().Underlying().(*types.Pointer).Elem())
		ws.addWild(c)
	case *ssa.Global:
		l := r.globalLoc(a.Object().(*types.Var))
		ws.addWild(l.Comp)
	default:
		// store through a pointer value
		if pt, ok := addr.Type().Underlying().(*types.Pointer); ok {
			switch pt.Elem().Underlying().(type) {
			case *types.Struct, *types.Array:
				ws.all = true; dbg("ws.all #3 in %s", funcKey(fr.fn))
			default:
				c, _ := r.boxComp(pt.Elem())
				ws.addWild(c)
			}
			return
		}
		ws.all = true; dbg("ws.all #4 in %s", funcKey(fr.fn))
	}
}

// fieldAddrComp names the component a FieldAddr chain ends in ("" if unknown).
func (r *Run) fieldAddrComp(a *ssa.FieldAddr) string {
	pt := a.X.Type().Underlying().(*types.Pointer)
	st := pt.Elem().Underlying().(*types.Struct)
	name := st.Field(a.Field).Name()
	if inner, ok := a.X.(*ssa.FieldAddr); ok {
		// nested inline struct
		p := r.fieldAddrComp(inner)
		if p == "" {
			return ""
		}
		comp := p + "." + name
		r.regComp(comp, arraySort(SInt, sortOf(st.Field(a.Field).Type())))
		return comp
	}
	comp, _ := r.fieldComp(st, structName(pt.Elem()), a.Field)
	return comp
}

func (r *Run) scanCall(fr *Frame, c *ssa.CallCommon, ws *writeSet, depth int) {
	if c.IsInvoke() {
		key := "iface:" + ifaceKey(c.Value.Type(), c.Method.Name())
		if sp := r.specs.Funcs[key]; sp != nil {
			msig := c.Method.Type().(*types.Signature)
			names := []string{"self"}
			for i := 0; i < msig.Params().Len(); i++ {
				names = append(names, msig.Params().At(i).Name())
			}
			if len(sp.Params) > 0 {
				names = append([]string{"self"}, sp.Params...)
			}
			r.scanSpecAssigns(sp, ws, &callCtx{fr: fr, cc: c, names: names, args: append([]ssa.Value{c.Value}, c.Args...), sig: msig})
			return
		}
		ws.all = true; dbg("ws.all #5 in %s", funcKey(fr.fn))
		return
	}
	switch f := c.Value.(type) {
	case *ssa.Builtin:
		switch f.Name() {
		case "append", "copy":
			if s, ok := c.Args[0].Type().Underlying().(*types.Slice); ok {
				comp, _ := r.elemComp(s.Elem())
				ws.addWild(comp)
				ws.allocs = true
			}
		case "delete":
			if m, ok := c.Args[0].Type().Underlying().(*types.Map); ok {
				h, _ := r.mapComps(m)
				ws.addWild(h)
				ws.addWild(r.mapLenComp(m))
			}
		}
		return
	case *ssa.Function:
		r.scanStatic(fr, f, c, ws, depth)
		return
	case *ssa.MakeClosure:
		r.scanStatic(fr, f.Fn.(*ssa.Function), c, ws, depth)
		return
	}
	// a local closure called through its cell?
	if fn := r.staticClosure(fr, c.Value); fn != nil {
		r.scanStatic(fr, fn, c, ws, depth)
		return
	}
	if key := r.fieldFuncKey(c.Value); key != "" {
		if sp := r.specs.Funcs[key]; sp != nil {
			r.scanSpecAssigns(sp, ws)
			return
		}
	}
	ws.all = true; dbg("ws.all #6 in %s", funcKey(fr.fn))
}

// staticClosure: the callee is loaded from a local cell that is only ever assigned one function literal.
func (r *Run) staticClosure(fr *Frame, v ssa.Value) *ssa.Function {
	u, ok := v.(*ssa.UnOp)
	if !ok || u.Op != token.MUL {
		return nil
	}
	a, ok := u.X.(*ssa.Alloc)
	if !ok {
		return nil
	}
	var found *ssa.Function
	for _, ref := range *a.Referrers() {
		if s, ok := ref.(*ssa.Store); ok && s.Addr == a {
			switch x := s.Val.(type) {
			case *ssa.MakeClosure:
				if found != nil && found != x.Fn.(*ssa.Function) {
					return nil
				}
				found = x.Fn.(*ssa.Function)
			case *ssa.Function:
				if found != nil && found != x {
					return nil
				}
				found = x
			default:
				return nil
			}
		}
	}
	return found
}

func (r *Run) scanStatic(fr *Frame, f *ssa.Function, c *ssa.CallCommon, ws *writeSet, depth int) {
	if r.isLockCall(f) != "" {
		// monitor havoc at Lock: protected fields
		if len(c.Args) > 0 {
			if fa, ok := c.Args[0].(*ssa.FieldAddr); ok {
				if mon := r.monitorFor(fa); mon != nil {
					// monitor-level ghost code runs at every Lock / Unlock of this monitor
					for _, ga := range append(append([]GhostAssign(nil), mon.LockGhost...), mon.UnlockGhost...) {
						r.ghostTargetComps(ga.LHS, ws, mon.Pkg)
					}
					for _, comp := range r.monitorComps(mon) {
						if comp == "E.*" {
							for c := range r.compSorts {
								if strings.HasPrefix(c, "E.") {
									ws.addWild(c)
								}
							}
							continue
						}
						ws.addWild(comp)
					}
				}
				pt := fa.X.Type().Underlying().(*types.Pointer)
				if hc := r.heldComp(pt, pt.Elem().Underlying().(*types.Struct).Field(fa.Field).Name()); hc != "" {
					ws.addWild(hc)
				}
			}
		}
		return
	}
	key := funcKey(f)
	if f.Pkg == nil || !strings.HasPrefix(f.Pkg.Pkg.Path(), repoModule) {
		if f.Parent() == nil {
			key = f.String()
		}
	}
	sp := r.specs.Funcs[key]
	if sp == nil && f.Parent() == nil {
		sp = r.specs.Funcs[f.String()]
	}
	if sp != nil && !sp.Inline {
		var names []string
		for _, p := range f.Params {
			names = append(names, p.Name())
		}
		if len(names) == 0 {
			// external function without a body: names from the signature / the contract
			sig := f.Signature
			if sig.Recv() != nil {
				names = append(names, "self")
			}
			for i := 0; i < sig.Params().Len(); i++ {
				names = append(names, sig.Params().At(i).Name())
			}
			if len(sp.Params) > 0 {
				names = sp.Params
			}
		}
		r.scanSpecAssigns(sp, ws, &callCtx{fr: fr, cc: c, names: names, args: c.Args, sig: f.Signature})
		return
	}
	if (f.Parent() != nil || (sp != nil && sp.Inline)) && depth < maxInlineDepth && len(f.Blocks) > 0 {
		// inlined body: scan it. Its own cells are frame-local, so only heap effects and captured cells matter.
		sub := &Frame{id: -1, fn: f, free: map[*ssa.FreeVar]Val{}, run: r}
		// captured variables resolve through the closure's bindings when known
		if mc := findMakeClosure(fr.fn, f); mc != nil {
			for i, fv := range f.FreeVars {
				if i < len(mc.Bindings) {
					if a, ok := mc.Bindings[i].(*ssa.Alloc); ok {
						if isCellAlloc(a) {
							sub.free[fv] = locVal(&Loc{Kind: LCell, Cell: cellKey{fr.id, a}, Typ: allocElem(a)}, a.Type())
						} else if v, ok := fr.regs[a]; ok {
							sub.free[fv] = v
						}
					} else if pfv, ok := mc.Bindings[i].(*ssa.FreeVar); ok {
						sub.free[fv] = fr.free[pfv]
					}
				}
			}
		}
		inner := newWriteSet()
		inner.comps, inner.wild = ws.comps, ws.wild
		for _, b := range f.Blocks {
			r.scanWrites(sub, b, inner, depth+1)
		}
		for k, t := range inner.cells {
			if k.frame != -1 {
				ws.cells[k] = t
			}
		}
		ws.sites = append(ws.sites, inner.sites...)
		ws.all = ws.all || inner.all
		ws.allocs = ws.allocs || inner.allocs
		return
	}
	ws.all = true; dbg("ws.all #7 in %s", funcKey(fr.fn))
}

func findMakeClosure(parent *ssa.Function, f *ssa.Function) *ssa.MakeClosure {
	for _, b := range parent.Blocks {
		for _, ins := range b.Instrs {
			if mc, ok := ins.(*ssa.MakeClosure); ok && mc.Fn == f {
				return mc
			}
		}
	}
	return nil
}

func (r *Run) scanSpecAssigns(sp *FuncSpec, ws *writeSet, ctx ...*callCtx) {
	if sp.Implements != "" {
		if isp := r.specs.Funcs["iface:"+sp.Implements]; isp != nil {
			r.scanSpecAssigns(isp, ws)
		}
	}
	if sp.Havoc {
		ws.all = true; dbg("ws.all #8 in %s", sp.Key)
		return
	}
	for _, a := range sp.Assigns {
		if id, ok := a.(*EIdent); ok && id.Name == "allocates" {
			ws.allocs = true
			continue
		}
		if len(ctx) > 0 && ctx[0] != nil {
			// x.f where x is a parameter of the callee: the object is the call's argument
			if sel, ok := a.(*ESel); ok {
				if id, ok := sel.X.(*EIdent); ok {
					if comp, base := ctx[0].paramField(r, id.Name, sel.Sel); comp != "" {
						ws.addSite(comp, base, ctx[0].fr)
						continue
					}
				}
			}
			if u, ok := a.(*EUnary); ok && u.Op == "*" {
				if id, ok := u.X.(*EIdent); ok {
					if comp := ctx[0].derefComp(r, sp, id.Name); comp != "" {
						ws.addWild(comp)
						continue
					}
				}
			}
		}
		comps, all := r.assignComps(sp, a)
		if all {
			ws.all = true; dbg("ws.all #9 in %s", sp.Key)
			return
		}
		for _, c := range comps {
			ws.addWild(c)
		}
	}
	for _, e := range sp.Ensures {
		if mentionsFresh(e.E) {
			ws.allocs = true
		}
	}
}

func mentionsFresh(e Expr) bool {
	found := false
	walkExpr(e, func(x Expr) {
		if c, ok := x.(*ECall); ok {
			if id, ok := c.Fun.(*EIdent); ok && id.Name == "fresh" {
				found = true
			}
		}
	})
	return found
}

func walkExpr(e Expr, f func(Expr)) {
	if e == nil {
		return
	}
	f(e)
	switch x := e.(type) {
	case *EUnary:
		walkExpr(x.X, f)
	case *EBinary:
		walkExpr(x.X, f)
		walkExpr(x.Y, f)
	case *ECall:
		walkExpr(x.Fun, f)
		for _, a := range x.Args {
			walkExpr(a, f)
		}
	case *EIndex:
		walkExpr(x.X, f)
		walkExpr(x.I, f)
	case *ESlice:
		walkExpr(x.X, f)
		walkExpr(x.Lo, f)
		walkExpr(x.Hi, f)
	case *ESel:
		walkExpr(x.X, f)
	case *EQuant:
		walkExpr(x.Body, f)
	}
}

// ---------------------------------------------------------------- operands

func (r *Run) operand(fr *Frame, st *State, v ssa.Value) Val {
	switch v := v.(type) {
	case *ssa.Const:
		return r.constVal(v)
	case *ssa.Global:
		obj, ok := v.Object().(*types.Var)
		if !ok {
			return termVal(r.ctx.Fresh("global", SInt), v.Type())
		}
		return locVal(r.globalLoc(obj), v.Type())
	case *ssa.Function:
		return Val{Kind: VFunc, Fn: v, Typ: v.Type()}
	case *ssa.FreeVar:
		if x, ok := fr.free[v]; ok {
			return x
		}
		r.warn("unbound free variable %s in %s", v.Name(), funcKey(fr.fn))
		return r.freshTyped("freevar."+v.Name(), v.Type(), st)
	case *ssa.Builtin:
		return Val{Kind: VNone, Typ: v.Type()}
	case *ssa.Parameter:
		if x, ok := fr.regs[v]; ok {
			return x
		}
	}
	if x, ok := fr.regs[v]; ok {
		return x
	}
	r.warn("use of undefined register %s in %s", v.Name(), funcKey(fr.fn))
	return r.freshTyped("undef."+v.Name(), v.Type(), st)
}

func (r *Run) constVal(c *ssa.Const) Val {
	typ := c.Type()
	if c.Value == nil {
		// zero value / nil
		return termVal(zeroOf(typ), typ)
	}
	switch c.Value.Kind() {
	case constant.Bool:
		return termVal(mkBool(constant.BoolVal(c.Value)), typ)
	case constant.Int:
		n, ok := new(big.Int).SetString(c.Value.ExactString(), 10)
		if !ok {
			n = big.NewInt(0)
		}
		if sortOf(typ) == SReal {
			return termVal(Term{n.String() + ".0", SReal}, typ)
		}
		return termVal(mkBig(n), typ)
	case constant.String:
		return termVal(r.strLit(constant.StringVal(c.Value)), typ)
	case constant.Float:
		return termVal(r.ctx.Fresh("float", SReal), typ)
	}
	return termVal(r.ctx.Fresh("const", sortOf(typ)), typ)
}

func (r *Run) globalLoc(obj *types.Var) *Loc {
	pkg := ""
	if obj.Pkg() != nil {
		pkg = shortPkg(obj.Pkg().Path())
	}
	comp := "G." + pkg + "." + obj.Name()
	srt := sortOf(obj.Type())
	switch obj.Type().Underlying().(type) {
	case *types.Struct, *types.Array:
		// a global aggregate: its address is a constant reference
		name := "gref." + sanitize(pkg+"."+obj.Name())
		r.ctx.DeclareOnce(name, fmt.Sprintf("(declare-const %s Int)", name))
		r.ctx.DeclareOnce(name+"!pos", fmt.Sprintf("(assert (> %s 0))", name))
		l := r.derefLoc(termVal(Term{name, SInt}, types.NewPointer(obj.Type())))
		return l
	}
	if !r.prog.mutableGlobal(obj) {
		// never assigned outside package initialisation: a constant of the program
		name := "Gc." + sanitize(pkg+"."+obj.Name())
		if !r.ctx.declared[name] {
			r.ctx.DeclareOnce(name, fmt.Sprintf("(declare-const %s %s)", name, srt))
			t := Term{name, srt}
			r.ctx.Assert(r.wellTyped(t, obj.Type(), nil))
			if _, isSl := obj.Type().Underlying().(*types.Slice); isSl {
				if n, ok := r.prog.globalInitLen(obj); ok {
					// initialised with a composite literal and never reassigned: its length is the literal's
					r.ctx.Assert(Eq(slLen(t), mkInt(n)))
				}
			}
			if isErrorType(obj.Type()) {
				inRepo := obj.Pkg() != nil && strings.HasPrefix(obj.Pkg().Path(), repoModule)
				fresh, alias := r.prog.globalInit(obj)
				switch {
				case alias != nil:
					// initialised as a copy of another variable: same value
					if al := r.globalLoc(alias); al.Kind == LConst {
						r.ctx.Assert(Eq(t, Term{al.Comp, al.Sort}))
					}
				case fresh || !inRepo:
					// a new error value created during initialisation: non-nil and different from all others
					r.ctx.Assert(Not(Eq(ifTag(t), mkInt(0))))
					for _, prev := range r.errGlobals {
						r.ctx.Assert(Not(Eq(t, prev)))
					}
					r.errGlobals = append(r.errGlobals, t)
					// created during initialisation: it exists before the function under verification starts
					r.ctx.DeclareOnce("top.entry", "(declare-const top.entry Int)")
					r.ctx.Assert(Le(ifVal(t), Term{"top.entry", SInt}))
					if inRepo {
						r.ctx.Assert(Eq(ifTag(t), r.tagByName("*errors.errorString")))
					}
					r.trusted["error variables initialised with errors.New/fmt.Errorf (and exported errors of other packages) are non-nil and pairwise distinct"] = true
				}
			}
		}
		return &Loc{Kind: LConst, Comp: name, Sort: srt, Typ: obj.Type()}
	}
	r.regComp(comp, srt)
	return &Loc{Kind: LGlobal, Comp: comp, Sort: srt, Typ: obj.Type()}
}

func isErrorType(t types.Type) bool {
	return types.Identical(t, types.Universe.Lookup("error").Type())
}

// derefLoc turns a pointer value into the location it designates.
func (r *Run) derefLoc(v Val) *Loc {
	if v.Kind == VLoc {
		return v.Loc
	}
	if v.Kind != VTerm || v.Typ == nil {
		return nil
	}
	pt, ok := v.Typ.Underlying().(*types.Pointer)
	if !ok {
		return nil
	}
	el := pt.Elem()
	switch u := el.Underlying().(type) {
	case *types.Struct:
		return &Loc{Kind: LComp, Comp: "F." + structName(el), Sort: SInt, Idx: v.T, Typ: el}
	case *types.Array:
		comp, srt := r.elemComp(u.Elem())
		// pointer to array: Base = ref, Off = 0 (element 0)
		return &Loc{Kind: LElem, Comp: comp, Sort: srt, Base: v.T, Off: mkInt(0), Typ: el}
	}
	comp, srt := r.boxComp(el)
	return &Loc{Kind: LComp, Comp: comp, Sort: srt, Idx: v.T, Typ: el}
}

// fieldLoc: address of field idx of the struct designated by loc/pointer base.
func (r *Run) fieldLoc(base Val, idx int) *Loc {
	l := r.derefLoc(base)
	if l == nil {
		return nil
	}
	st, ok := l.Typ.Underlying().(*types.Struct)
	if !ok {
		return nil
	}
	f := st.Field(idx)
	switch l.Kind {
	case LComp:
		comp := l.Comp + "." + f.Name()
		if arr, ok := f.Type().Underlying().(*types.Array); ok {
			// an array stored inline in a struct: its elements live in the element memory of its type, at a base
			// that is an injective function of (field, object) and different from every allocated reference
			ec, es := r.elemComp(arr.Elem())
			return &Loc{Kind: LElem, Comp: ec, Sort: es, Base: r.inlineArrayBase(comp, l.Idx), Off: mkInt(0), Typ: f.Type()}
		}
		srt := sortOf(f.Type())
		r.regComp(comp, arraySort(SInt, srt))
		return &Loc{Kind: LComp, Comp: comp, Sort: srt, Idx: l.Idx, Typ: f.Type()}
	}
	return nil
}

// inlineArrayBase: the element-memory base of the array field comp of object obj (negative, injective per field and
// object, distinct between fields); facts are asserted per application, no quantifier.
func (r *Run) inlineArrayBase(comp string, obj Term) Term {
	fn := "ab." + sanitize(comp)
	inv := "abinv." + sanitize(comp)
	r.ctx.DeclareOnce(fn, fmt.Sprintf("(declare-fun %s (Int) Int)", fn))
	r.ctx.DeclareOnce(inv, fmt.Sprintf("(declare-fun %s (Int) Int)", inv))
	r.ctx.DeclareOnce("abtag", "(declare-fun abtag (Int) Int)")
	if r.abTags == nil {
		r.abTags = map[string]int{}
	}
	if _, ok := r.abTags[comp]; !ok {
		r.abTags[comp] = len(r.abTags) + 1
	}
	b := app(SInt, fn, obj)
	key := fn + "(" + obj.S + ")"
	if !r.ctx.declared[key] {
		r.ctx.declared[key] = true
		r.ctx.Assert(Lt(b, mkInt(0)))
		r.ctx.Assert(Eq(app(SInt, inv, b), obj))
		r.ctx.Assert(Eq(app(SInt, "abtag", b), mkInt(int64(r.abTags[comp]))))
	}
	return b
}

// fieldByName resolves x.name, following embedded fields.
func (r *Run) fieldByName(st *State, v Val, name string) *Loc {
	if v.Typ == nil {
		return nil
	}
	// ghost field?
	base := v.Typ
	if p, ok := base.Underlying().(*types.Pointer); ok {
		base = p.Elem()
	}
	if n, ok := base.(*types.Named); ok {
		gk := n.Obj().Name() + "." + name
		if srt, ok := r.specs.Ghosts[gk]; ok {
			comp := "F." + structName(base) + "." + name
			r.regComp(comp, arraySort(SInt, srt))
			return &Loc{Kind: LComp, Comp: comp, Sort: srt, Idx: r.mustTerm(v, "ghost field base"), Typ: nil}
		}
	}
	if _, isStruct := v.Typ.Underlying().(*types.Struct); isStruct && v.Kind == VTerm {
		// a struct value is a reference to its storage (as for ssa.Field)
		v = termVal(v.T, types.NewPointer(v.Typ))
	}
	obj, path, _ := types.LookupFieldOrMethod(v.Typ, true, nil, name)
	if obj == nil {
		// unexported fields need the package
		if n, ok := base.(*types.Named); ok && n.Obj().Pkg() != nil {
			obj, path, _ = types.LookupFieldOrMethod(v.Typ, true, n.Obj().Pkg(), name)
		}
	}
	if _, ok := obj.(*types.Var); !ok || len(path) == 0 {
		return nil
	}
	cur := v
	var l *Loc
	for i, idx := range path {
		// auto-deref pointers on the way
		if cur.Kind == VTerm {
			if _, isPtr := cur.Typ.Underlying().(*types.Pointer); !isPtr {
				return nil
			}
		}
		l = r.fieldLoc(cur, idx)
		if l == nil {
			return nil
		}
		if i < len(path)-1 {
			if _, isPtr := l.Typ.Underlying().(*types.Pointer); isPtr {
				cur = r.load(st, l)
			} else {
				cur = locVal(l, types.NewPointer(l.Typ))
			}
		}
	}
	return l
}

// ---------------------------------------------------------------- integer helpers

func (r *Run) convertInt(t Term, src, dst types.Type) Term {
	if !isInteger(dst) {
		return t
	}
	dlo, dhi := intRange(dst)
	if src != nil && isInteger(src) {
		slo, shi := intRange(src)
		if slo.Cmp(dlo) >= 0 && shi.Cmp(dhi) <= 0 {
			return t
		}
	}
	if l, ok := intLit(t); ok {
		return mkBig(wrapInt(l, dst))
	}
	bits := intBits(dst)
	m := pow2(bits)
	if isUnsigned(dst) {
		return ModC(t, m)
	}
	h := pow2(bits - 1)
	return Sub(ModC(Add(t, mkBig(h)), m), mkBig(h))
}

func wrapInt(v *big.Int, t types.Type) *big.Int {
	bits := intBits(t)
	m := pow2(bits)
	x := new(big.Int).Mod(v, m)
	if !isUnsigned(t) && x.Cmp(pow2(bits-1)) >= 0 {
		x.Sub(x, m)
	}
	return x
}

// bitop encodes a bitwise / shift operation on integers of the given width.
func (r *Run) bitop(op string, a, b Term, bits uint, unsigned bool) Term {
	la, oka := intLit(a)
	lb, okb := intLit(b)
	if oka && okb && la.Sign() >= 0 && lb.Sign() >= 0 {
		x := new(big.Int)
		switch op {
		case "&":
			return mkBig(x.And(la, lb))
		case "|":
			return mkBig(x.Or(la, lb))
		case "^":
			return mkBig(x.Xor(la, lb))
		case "&^":
			return mkBig(x.AndNot(la, lb))
		case "<<":
			x.Lsh(la, uint(lb.Uint64()))
			if unsigned {
				x.Mod(x, pow2(bits))
			}
			return mkBig(x)
		case ">>":
			return mkBig(x.Rsh(la, uint(lb.Uint64())))
		}
	}
	ea, eb := r.ctx.Expand(a), r.ctx.Expand(b)
	if op == "&" && !oka && !okb && (eb.S == Sub(a, mkInt(1)).S || ea.S == Sub(b, mkInt(1)).S) {
		// x & (x-1): zero exactly for 0 and the powers of two (exact characterisation of the zero test;
		// the value itself is only bounded)
		x := a
		if ea.S == Sub(b, mkInt(1)).S {
			x = b
		}
		res := r.ctx.Fresh("pow2test", SInt)
		var alts []Term
		alts = append(alts, Eq(x, mkInt(0)))
		for k := uint(0); k < bits-1; k++ {
			alts = append(alts, Eq(x, mkBig(pow2(k))))
		}
		r.ctx.Assert(Implies(Ge(x, mkInt(0)), And(Eq(Eq(res, mkInt(0)), Or(alts...)), Le(mkInt(0), res), Le(res, x))))
		return res
	}
	switch op {
	case "&":
		if oka && !okb {
			a, b, la, lb, oka, okb = b, a, lb, la, okb, oka
		}
		if okb && lb.Sign() >= 0 && unsigned {
			return maskConst(a, lb)
		}
		if okb && lb.Sign() >= 0 && !unsigned {
			// x & c for c >= 0 on a signed x: the result only depends on the low bits of x's two's complement
			return maskConst(ModC(a, pow2(bits)), lb)
		}
	case "<<":
		if okb && lb.Sign() >= 0 && lb.Cmp(big.NewInt(int64(bits))) < 0 {
			t := Mul(a, mkBig(pow2(uint(lb.Uint64()))))
			if unsigned {
				return ModC(t, pow2(bits))
			}
			return t // signed overflow on shift is treated like other signed arithmetic
		}
	case ">>":
		if okb && lb.Sign() >= 0 {
			if lb.Cmp(big.NewInt(int64(bits))) >= 0 && unsigned {
				return mkInt(0)
			}
			return DivC(a, pow2(uint(lb.Uint64()))) // euclidean div == arithmetic shift for negative too
		}
	case "&^":
		if okb && lb.Sign() >= 0 && unsigned {
			inv := new(big.Int).Sub(new(big.Int).Sub(pow2(bits), big.NewInt(1)), lb)
			return maskConst(a, inv)
		}
	case "|":
		if oka && !okb {
			a, b, la, lb, oka, okb = b, a, lb, la, okb, oka
		}
		if okb && lb.Sign() >= 0 && unsigned {
			// a | c = (a &^ c) + c
			inv := new(big.Int).Sub(new(big.Int).Sub(pow2(bits), big.NewInt(1)), lb)
			return Add(maskConst(a, inv), mkBig(lb))
		}
	}
	return r.bvBridge(op, a, b, bits, unsigned)
}

// maskConst computes x & c for a constant c >= 0 and x >= 0 by decomposing c into runs of ones.
func maskConst(x Term, c *big.Int) Term {
	if c.Sign() == 0 {
		return mkInt(0)
	}
	res := mkInt(0)
	n := c.BitLen()
	i := 0
	for i < n {
		if c.Bit(i) == 0 {
			i++
			continue
		}
		j := i
		for j < n && c.Bit(j) == 1 {
			j++
		}
		// bits [i,j)
		part := ModC(DivC(x, pow2(uint(i))), pow2(uint(j-i)))
		if i > 0 {
			part = Mul(part, mkBig(pow2(uint(i))))
		}
		res = Add(res, part)
		i = j
	}
	return res
}

func (r *Run) bvBridge(op string, a, b Term, bits uint, unsigned bool) Term {
	bvop := map[string]string{"&": "bvand", "|": "bvor", "^": "bvxor", "<<": "bvshl", ">>": "bvlshr", "&^": "bvand"}[op]
	if !unsigned && op == ">>" {
		bvop = "bvashr"
	}
	ba := fmt.Sprintf("((_ int2bv %d) %s)", bits, a.S)
	bb := fmt.Sprintf("((_ int2bv %d) %s)", bits, b.S)
	if op == "&^" {
		bb = "(bvnot " + bb + ")"
	}
	res := fmt.Sprintf("(bv2nat (%s %s %s))", bvop, ba, bb)
	t := Term{res, SInt}
	if !unsigned {
		h := pow2(bits - 1)
		t = Sub(ModC(Add(t, mkBig(h)), pow2(bits)), mkBig(h))
	}
	r.trusted["int<->bv bridge used for "+op] = true
	return r.ctx.Define("bv", t)
}

// ---------------------------------------------------------------- maps, mutex names, strings

func (r *Run) mapComps(m *types.Map) (has, val string) {
	k := underName(m.Key()) + "," + underName(m.Elem())
	has = "M.has." + k
	val = "M.val." + k
	r.regComp(has, arraySort(SInt, arraySort(sortOf(m.Key()), SBool)))
	r.regComp(val, arraySort(SInt, arraySort(sortOf(m.Key()), sortOf(m.Elem()))))
	return
}

func (r *Run) mapLenComp(m *types.Map) string {
	c := "M.len." + underName(m.Key()) + "," + underName(m.Elem())
	r.regComp(c, arraySort(SInt, SInt))
	return c
}

func (r *Run) heldComp(objType types.Type, mutex string) string {
	if objType == nil {
		return ""
	}
	t := objType
	if p, ok := t.Underlying().(*types.Pointer); ok {
		t = p.Elem()
	}
	comp := "held." + structName(t) + "." + mutex
	r.regComp(comp, arraySort(SInt, SBool))
	return comp
}

func (r *Run) strOfSlice(st *State, s Term) Term {
	comp, _ := r.elemComp(types.Typ[types.Uint8])
	row := Select(r.heapGet(st, comp), slBase(s))
	t := r.ctx.Define("strof", app(SStr, "str.of_", s, row))
	r.ctx.Assert(Eq(app(SInt, "str.len_", t), slLen(s)))
	return t
}

func ifaceKey(t types.Type, method string) string {
	if n, ok := t.(*types.Named); ok {
		p := ""
		if n.Obj().Pkg() != nil {
			p = shortPkg(n.Obj().Pkg().Path()) + "."
		}
		return p + n.Obj().Name() + "." + method
	}
	return typeName(t) + "." + method
}

func dbg(f string, a ...interface{}) {
	if os.Getenv("GOVC_DEBUG") != "" {
		fmt.Fprintf(os.Stderr, "debug: "+f+"\n", a...)
	}
}

// resolveInvariantBase: the object a loop's field write goes to, when it is the same object in every iteration.
func (r *Run) resolveInvariantBase(site writeSite, st *State, ws *writeSet) (Term, bool) {
	fr := site.fr
	switch x := site.base.(type) {
	case *ssa.Parameter:
		if v, ok := fr.regs[x]; ok && v.Kind == VTerm {
			return v.T, true
		}
	case *ssa.UnOp:
		if x.Op != token.MUL {
			return Term{}, false
		}
		switch a := x.X.(type) {
		case *ssa.Alloc:
			if fr.id == -1 {
				return Term{}, false
			}
			if isCellAlloc(a) {
				key := cellKey{fr.id, a}
				if _, written := ws.cells[key]; written {
					return Term{}, false
				}
				if v, ok := st.cells[key]; ok && v.Kind == VTerm {
					return v.T, true
				}
				return Term{}, false
			}
			bc, _ := r.boxComp(allocElem(a))
			if ws.comps[bc] {
				return Term{}, false
			}
			if p, ok := fr.regs[a]; ok {
				if l := r.derefLoc(p); l != nil {
					if v := r.load(st, l); v.Kind == VTerm {
						return v.T, true
					}
				}
			}
		case *ssa.FreeVar:
			p, ok := fr.free[a]
			if !ok {
				return Term{}, false
			}
			l := r.derefLoc(p)
			if l == nil {
				return Term{}, false
			}
			switch l.Kind {
			case LCell:
				if _, written := ws.cells[l.Cell]; written {
					return Term{}, false
				}
			case LComp:
				if ws.comps[l.Comp] {
					return Term{}, false
				}
			default:
				return Term{}, false
			}
			if v := r.load(st, l); v.Kind == VTerm {
				return v.T, true
			}
		}
	}
	return Term{}, false
}

type callCtx struct {
	fr    *Frame
	cc    *ssa.CallCommon
	names []string
	args  []ssa.Value // aligned with names
	sig   *types.Signature
}

// derefComp: the box component designated by "*name" at this call (name a parameter or a result).
func (c *callCtx) derefComp(r *Run, sp *FuncSpec, name string) string {
	for i, n := range c.names {
		if n == name && i < len(c.args) {
			if pt, ok := c.args[i].Type().Underlying().(*types.Pointer); ok {
				comp, _ := r.boxComp(pt.Elem())
				return comp
			}
		}
	}
	if c.sig != nil {
		rn := resultNames(c.sig, sp)
		for i, n := range rn {
			if n == name || name == fmt.Sprintf("result%d", i) || (name == "result" && len(rn) == 1) {
				if pt, ok := c.sig.Results().At(i).Type().Underlying().(*types.Pointer); ok {
					comp, _ := r.boxComp(pt.Elem())
					return comp
				}
			}
		}
	}
	return ""
}

// paramField: component and argument value for "param.field" at this call site ("" if not a plain field of a
// pointer-to-struct parameter).
func (c *callCtx) paramField(r *Run, param, field string) (string, ssa.Value) {
	for i, n := range c.names {
		if n != param || i >= len(c.args) {
			continue
		}
		arg := c.args[i]
		pt, ok := arg.Type().Underlying().(*types.Pointer)
		if !ok {
			return "", nil
		}
		stt, ok := pt.Elem().Underlying().(*types.Struct)
		if !ok {
			return "", nil
		}
		for j := 0; j < stt.NumFields(); j++ {
			if stt.Field(j).Name() == field {
				comp, _ := r.fieldComp(stt, structName(pt.Elem()), j)
				return comp, arg
			}
		}
		if n, ok := pt.Elem().(*types.Named); ok {
			if gs, ok := r.specs.Ghosts[n.Obj().Name()+"."+field]; ok {
				comp := "F." + structName(pt.Elem()) + "." + field
				r.regComp(comp, arraySort(SInt, gs))
				return comp, arg
			}
		}
	}
	return "", nil
}

// scanGhostWrites adds the targets of every ghost assignment in fn's contract (any anchor) to the write set.
// scanGhostWritesIn: like scanGhostWrites, but of fn's own ghost blocks only those anchored at a program point inside the
// given blocks count (an anchor that cannot be located counts everywhere).
func (r *Run) scanGhostWritesIn(fn *ssa.Function, body map[*ssa.BasicBlock]bool, ws *writeSet, seen map[*ssa.Function]bool) {
	if seen[fn] {
		return
	}
	seen[fn] = true
	if sp := r.specFor(fn); sp != nil {
		for _, gb := range sp.Ghost {
			if !r.anchorMayBeIn(fn, gb.Anchor, body) {
				continue
			}
			for _, ga := range gb.Assign {
				r.ghostTargetComps(ga.LHS, ws, sp.Pkg)
			}
		}
	}
	for _, a := range fn.AnonFuncs {
		r.scanGhostWrites(a, ws, seen)
	}
}

// anchorMayBeIn: can the program point named by the anchor lie in one of the blocks?
func (r *Run) anchorMayBeIn(fn *ssa.Function, anchor string, body map[*ssa.BasicBlock]bool) bool {
	switch {
	case anchor == "entry":
		return len(fn.Blocks) > 0 && body[fn.Blocks[0]]
	case anchor == "return":
		for b := range body {
			if len(b.Instrs) > 0 {
				if _, ok := b.Instrs[len(b.Instrs)-1].(*ssa.Return); ok {
					return true
				}
			}
		}
		return false
	case strings.HasPrefix(anchor, "call:") || strings.HasPrefix(anchor, "before:"):
		name := anchor[strings.Index(anchor, ":")+1:]
		k := strings.LastIndex(name, "#")
		if k < 0 {
			return true
		}
		short := name[:k]
		var ord int
		fmt.Sscanf(name[k+1:], "%d", &ord)
		for b := range body {
			for _, ins := range b.Instrs {
				var cc *ssa.CallCommon
				switch x := ins.(type) {
				case *ssa.Call:
					cc = &x.Call
				case *ssa.Defer:
					cc = &x.Call
				case *ssa.Go:
					cc = &x.Call
				}
				if cc == nil {
					continue
				}
				if n := r.calleeShortName(nil, cc); n == "dyn" {
					return true // a callee only the symbolic execution can name: it may be the anchor's
				} else if n != short {
					continue
				}
				if callOrdinal(fn, ins, short, func(c *ssa.CallCommon) string { return r.calleeShortName(nil, c) }) == ord {
					return true
				}
			}
		}
		return false
	}
	return true
}

func (r *Run) scanGhostWrites(fn *ssa.Function, ws *writeSet, seen map[*ssa.Function]bool) {
	if seen[fn] {
		return
	}
	seen[fn] = true
	if sp := r.specFor(fn); sp != nil {
		for _, gb := range sp.Ghost {
			for _, ga := range gb.Assign {
				r.ghostTargetComps(ga.LHS, ws, sp.Pkg)
			}
		}
	}
	for _, a := range fn.AnonFuncs {
		r.scanGhostWrites(a, ws, seen)
	}
}

func (r *Run) ghostTargetComps(lhs Expr, ws *writeSet, pkgShort string) {
	switch x := lhs.(type) {
	case *ESel:
		// x.g: every ghost field named g
		found := false
		for name, srt := range r.specs.Ghosts {
			if strings.HasSuffix(name, "."+x.Sel) {
				structN := name[:len(name)-len(x.Sel)-1]
				// the component is F.<pkg>.<Struct>.<field>: find the package by scanning loaded repo packages
				for path := range r.prog.ByPkg {
					pkg := r.prog.ByPkg[path].Pkg
					if shortPkg(pkg.Path()) != pkgShort {
						continue
					}
					if tn, ok := pkg.Scope().Lookup(structN).(*types.TypeName); ok {
						comp := "F." + structName(tn.Type()) + "." + x.Sel
						r.regComp(comp, arraySort(SInt, srt))
						ws.addWild(comp)
						found = true
					}
				}
			}
		}
		if !found {
			ws.all = true
		}
	case *EIndex:
		if inner, ok := x.X.(*ESel); ok {
			r.ghostTargetComps(inner, ws, pkgShort)
			return
		}
		if id, ok := x.X.(*EIdent); ok {
			if srt, ok := r.specs.Ghosts[id.Name]; ok {
				r.regComp("ghost."+id.Name, srt)
				ws.addWild("ghost." + id.Name)
				return
			}
		}
		ws.all = true
	case *EIdent:
		if srt, ok := r.specs.Ghosts[x.Name]; ok {
			r.regComp("ghost."+x.Name, srt)
			ws.addWild("ghost." + x.Name)
			return
		}
		ws.all = true
	default:
		ws.all = true
	}
}

// loopCarriedLocals: names of the local variables (Allocs accessed directly by loads and stores) that are stored in the
// loop body and whose value can reach a load in a LATER iteration, i.e. that are live at the loop header along paths
// inside the body (upward-exposed uses) and written inside the body.
func loopCarriedLocals(li *loopInfo) []string {
	type set map[*ssa.Alloc]bool
	use := map[*ssa.BasicBlock]set{}
	def := map[*ssa.BasicBlock]set{}
	stored := set{}
	for b := range li.body {
		u, d := set{}, set{}
		for _, ins := range b.Instrs {
			switch x := ins.(type) {
			case *ssa.UnOp:
				if x.Op == token.MUL {
					if a, ok := x.X.(*ssa.Alloc); ok && !d[a] {
						u[a] = true
					}
				}
			case *ssa.Store:
				if a, ok := x.Addr.(*ssa.Alloc); ok {
					d[a] = true
					stored[a] = true
				}
			}
		}
		use[b], def[b] = u, d
	}
	liveIn := map[*ssa.BasicBlock]set{}
	for b := range li.body {
		liveIn[b] = set{}
	}
	for changed := true; changed; {
		changed = false
		for b := range li.body {
			out := set{}
			for _, s := range b.Succs {
				if !li.body[s] || s == li.header {
					continue // leaving the loop, or the back edge: one iteration only
				}
				for a := range liveIn[s] {
					out[a] = true
				}
			}
			in := liveIn[b]
			for a := range use[b] {
				if !in[a] {
					in[a] = true
					changed = true
				}
			}
			for a := range out {
				if !def[b][a] && !in[a] {
					in[a] = true
					changed = true
				}
			}
		}
	}
	seen := map[string]bool{}
	var names []string
	for a := range liveIn[li.header] {
		if stored[a] && a.Comment != "" && !seen[a.Comment] {
			seen[a.Comment] = true
			names = append(names, a.Comment)
		}
	}
	sort.Strings(names)
	return names
}
