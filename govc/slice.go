package main

import (
	"regexp"
	"strings"
)

// Cone-of-influence slicing of a query: keep only the definitions and assumptions that (transitively) share a
// symbol with the goal. Dropping assumptions can only make a goal harder to prove, so an "unsat" on the slice is
// a valid discharge; anything else falls back to the full query.

var smtBuiltin = map[string]bool{
	"and": true, "or": true, "not": true, "=>": true, "=": true, "<=": true, "<": true, ">=": true, ">": true,
	"+": true, "-": true, "*": true, "div": true, "mod": true, "ite": true, "select": true, "store": true,
	"forall": true, "exists": true, "!": true, ":pattern": true, "let": true, "true": true, "false": true,
	"Int": true, "Bool": true, "Array": true, "as": true, "const": true, "Slice": true, "Iface": true, "Str": true,
	"Real": true, "_": true, "int2bv": true, "bv2nat": true, "bvand": true, "bvor": true, "bvxor": true, "bvnot": true,
	"bvshl": true, "bvlshr": true, "bvashr": true, "sl.base": true, "sl.off": true, "sl.len": true, "sl.cap": true,
	"mk-slice": true, "if.tag": true, "if.val": true, "mk-iface": true, "assert": true, "define-fun": true,
	"declare-const": true, "declare-fun": true, "distinct": true, "str.len_": true, "str.at_": true,
}

func lineSymbols(line string) []string {
	seen := map[string]bool{}
	var out []string
	bound := map[string]bool{}
	// bound variables: "((name Sort)" after forall/exists
	for _, q := range []string{"(forall (", "(exists ("} {
		idx := 0
		for {
			k := strings.Index(line[idx:], q)
			if k < 0 {
				break
			}
			p := idx + k + len(q)
			// parse "(name Sort) (name Sort) ..." until the closing paren of the binder list
			depth := 1
			for p < len(line) && depth > 0 {
				switch line[p] {
				case '(':
					depth++
					// name follows
					e := p + 1
					for e < len(line) && line[e] != ' ' && line[e] != ')' {
						e++
					}
					if depth == 2 {
						bound[line[p+1:e]] = true
					}
					p = e
					continue
				case ')':
					depth--
				}
				p++
			}
			idx = p
		}
	}
	i := 0
	for i < len(line) {
		c := line[i]
		if c == '(' || c == ')' || c == ' ' || c == '\t' {
			i++
			continue
		}
		j := i
		for j < len(line) && line[j] != '(' && line[j] != ')' && line[j] != ' ' && line[j] != '\t' {
			j++
		}
		tok := line[i:j]
		i = j
		if smtBuiltin[tok] || bound[tok] || seen[tok] {
			continue
		}
		if tok[0] >= '0' && tok[0] <= '9' {
			continue
		}
		seen[tok] = true
		out = append(out, tok)
	}
	return out
}

// sliceQuery returns the lines of the prefix relevant to the goal.
func sliceLines(lines []string, goalText string, defs map[string]string) []string {
	type info struct {
		kind string // declare | define | assert
		name string
		syms []string
	}
	infos := make([]info, len(lines))
	definedAt := map[string]int{}
	for i, l := range lines {
		switch {
		case strings.HasPrefix(l, "(define-fun "):
			rest := l[len("(define-fun "):]
			k := strings.IndexByte(rest, ' ')
			name := rest[:k]
			infos[i] = info{"define", name, lineSymbols(rest[k:])}
			definedAt[name] = i
		case strings.HasPrefix(l, "(assert (= ") && defEqName(l, defs) != "":
			// the defining equation of a named array merge: directional, like a define-fun
			name := defEqName(l, defs)
			infos[i] = info{"define", name, lineSymbols(l)}
			definedAt[name] = i
		case strings.HasPrefix(l, "(assert "):
			infos[i] = info{"assert", "", lineSymbols(l)}
		default:
			infos[i] = info{kind: "declare"}
		}
	}
	relevant := map[string]bool{}
	var work []string
	add := func(s string) {
		if !relevant[s] {
			relevant[s] = true
			work = append(work, s)
		}
	}
	for _, s := range lineSymbols(goalText) {
		add(s)
	}
	include := make([]bool, len(lines))
	// index: symbol -> asserts mentioning it
	bySym := map[string][]int{}
	for i, in := range infos {
		if in.kind == "assert" {
			for _, s := range in.syms {
				bySym[s] = append(bySym[s], i)
			}
		}
	}
	nAsserts := 0
	for _, in := range infos {
		if in.kind == "assert" {
			nAsserts++
		}
	}
	hub := func(s string) bool {
		// symbols that occur in a large share of the assumptions (the receiver, the allocation watermark, reach
		// variables) connect everything with everything: they do not make an assumption relevant by themselves
		n := len(bySym[s])
		return n > 10 && n*8 > nAsserts
	}
	for len(work) > 0 {
		s := work[len(work)-1]
		work = work[:len(work)-1]
		if i, ok := definedAt[s]; ok && !include[i] {
			include[i] = true
			for _, t := range infos[i].syms {
				add(t)
			}
		}
		if hub(s) {
			continue
		}
		for _, i := range bySym[s] {
			if !include[i] {
				include[i] = true
				for _, t := range infos[i].syms {
					add(t)
				}
			}
		}
	}
	var out []string
	for i, l := range lines {
		if infos[i].kind == "declare" || include[i] {
			out = append(out, l)
		}
	}
	return out
}

// SlicedQuery renders the cone-of-influence slice of the query.
func (c *SMTCtx) SlicedQuery(mark int, hyps []Term, goal Term) (string, int, int) {
	var gt strings.Builder
	for _, h := range hyps {
		gt.WriteString(h.S)
		gt.WriteByte(' ')
	}
	gt.WriteString(goal.S)
	kept := sliceLines(c.lines[:mark], gt.String(), c.defs)
	var b strings.Builder
	b.WriteString(preamble)
	for _, l := range kept {
		b.WriteString(l)
		b.WriteByte('\n')
	}
	for _, h := range hyps {
		if !h.IsTrue() {
			b.WriteString("(assert " + h.S + ")\n")
		}
	}
	b.WriteString("(assert (not " + goal.S + "))\n(check-sat)\n")
	return b.String(), len(kept), mark
}

// Path filter: an assumption guarded by the reach term of a block (or of an edge) that cannot lie on any path to the
// obligation's own program point says nothing about that point. The guards that can are exactly those that occur
// (transitively, through definitions) in the obligation's hypotheses. Dropping the others is sound for "unsat".
var guardRe = regexp.MustCompile(`^\(assert \(=> ([RE][0-9]+\.[0-9]+![0-9]+) `)

func (c *SMTCtx) pathFilter(lines []string, hyps []Term) []string {
	closure := map[string]bool{}
	var work []string
	for _, h := range hyps {
		for _, s := range lineSymbols(h.S) {
			if !closure[s] {
				closure[s] = true
				work = append(work, s)
			}
		}
	}
	if len(work) == 0 {
		return lines
	}
	for len(work) > 0 {
		s := work[len(work)-1]
		work = work[:len(work)-1]
		if d, ok := c.defs[s]; ok {
			for _, t := range lineSymbols(d) {
				if !closure[t] {
					closure[t] = true
					work = append(work, t)
				}
			}
		}
	}
	out := make([]string, 0, len(lines))
	offPath := func(term string) bool {
		for _, sym := range lineSymbols(term) {
			if reachSymRe.MatchString(sym) && !closure[sym] {
				return true
			}
		}
		return false
	}
	tagOff := map[string]bool{}
	for i, l := range lines {
		if tag, ok := c.tagAt[i]; ok && strings.HasPrefix(l, "(assert ") && defEqName2(l, c.defs) == "" {
			// emitted while a block off every path to the obligation was executed (facts about that block's own values)
			off, seen := tagOff[tag]
			if !seen {
				off = offPath(tag)
				tagOff[tag] = off
			}
			if off {
				continue
			}
		}
		if m := guardRe.FindStringSubmatch(l); m != nil && !closure[m[1]] {
			continue
		}
		if strings.HasPrefix(l, "(assert (=> (") {
			// compound guard: (=> (and E.. cond) body) - off the path as soon as one reach/edge symbol of it is
			if args, ok := splitApp(l[len("(assert "):len(l)-1], "=>"); ok && len(args) == 2 {
				drop := false
				for _, sym := range lineSymbols(args[0]) {
					if reachSymRe.MatchString(sym) && !closure[sym] {
						drop = true
						break
					}
				}
				if drop {
					continue
				}
			}
		}
		out = append(out, l)
	}
	return out
}

var reachSymRe = regexp.MustCompile(`^[RE][0-9]+\.[0-9]+![0-9]+$`)

// PathQuery renders the query without the assumptions of blocks off every path to the obligation (optionally also
// cone-of-influence sliced).
func (c *SMTCtx) PathQuery(mark int, hyps []Term, goal Term, cone bool) (string, int, int) {
	lines := c.pathFilter(c.lines[:mark], hyps)
	if cone {
		var gt strings.Builder
		for _, h := range hyps {
			gt.WriteString(h.S)
			gt.WriteByte(' ')
		}
		gt.WriteString(goal.S)
		lines = sliceLines(lines, gt.String(), c.defs)
	}
	var b strings.Builder
	b.WriteString(preamble)
	for _, l := range lines {
		b.WriteString(l)
		b.WriteByte('\n')
	}
	for _, h := range hyps {
		if !h.IsTrue() {
			b.WriteString("(assert " + h.S + ")\n")
		}
	}
	b.WriteString("(assert (not " + goal.S + "))\n(check-sat)\n")
	return b.String(), len(lines), mark
}

// defEqName: for a line "(assert (= NAME body))" where NAME is a name introduced by Define, NAME; else "".
func defEqName(l string, defs map[string]string) string {
	rest := l[len("(assert (= "):]
	k := strings.IndexByte(rest, ' ')
	if k <= 0 {
		return ""
	}
	name := rest[:k]
	if _, ok := defs[name]; ok {
		return name
	}
	return ""
}

func defEqName2(l string, defs map[string]string) string {
	if !strings.HasPrefix(l, "(assert (= ") {
		return ""
	}
	return defEqName(l, defs)
}
