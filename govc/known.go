package main

import (
	"encoding/json"
	"fmt"
	"os"
	"path/filepath"
	"strings"
)

// KnownFinding is one entry of /verif/known_findings.json (committed, never written at run time).
type KnownFinding struct {
	Property   string `json:"property"`
	Obligation string `json:"obligation"`
	Excluded   string `json:"excluded"` // contract-language predicate over the function's entry state describing the failing case
	What       string `json:"what"`
	Status     string `json:"status"` // known | fixed
	Commit     string `json:"commit,omitempty"`
	excl       Expr
}

func loadKnown(path string) ([]*KnownFinding, error) {
	data, err := os.ReadFile(path)
	if err != nil {
		if os.IsNotExist(err) {
			return nil, nil
		}
		return nil, err
	}
	var doc struct {
		Findings []*KnownFinding `json:"findings"`
	}
	if err := json.Unmarshal(data, &doc); err != nil {
		return nil, err
	}
	for _, k := range doc.Findings {
		if k.Status == "known" && k.Excluded != "" {
			e, err := parseExpr(k.Excluded)
			if err != nil {
				return nil, fmt.Errorf("known finding %s: %v", k.Obligation, err)
			}
			k.excl = e
		}
	}
	return doc.Findings, nil
}

var activeKnown []*KnownFinding

// applyKnown splits each obligation that has a `known` entry into "the listed case" (expected to fail) and
// "everything else" (must hold, so a different violation of the same obligation is still reported).
func applyKnown(obls []*Obligation, known []*KnownFinding, prop string, prog *Program, sp *Specs) []*Obligation {
	var out []*Obligation
	for _, o := range obls {
		var k *KnownFinding
		for _, x := range known {
			if x.Status == "known" && x.Property == prop && x.Obligation == o.Name {
				k = x
			}
		}
		if k == nil || o.exclTerm == nil {
			out = append(out, o)
			continue
		}
		rest := *o
		rest.hyps = append(append([]Term(nil), o.hyps...), Not(*o.exclTerm))
		out = append(out, &rest)
		listed := *o
		listed.Name = o.Name + "[known-case]"
		listed.hyps = append(append([]Term(nil), o.hyps...), *o.exclTerm)
		listed.knownExpectedFail = k
		out = append(out, &listed)
	}
	return out
}

// writeReplay writes the replay artefact of a failed obligation and returns its path.
// A ".go" path means an executable replay; a ".txt" path carries the obligation and the solver output only.
func writeReplay(prog *Program, sp *Specs, prop string, o *Obligation) string {
	dir := filepath.Join(verifDir, "replays", prop)
	os.MkdirAll(dir, 0o755)
	base := filepath.Join(dir, sanitize(strings.ReplaceAll(o.Name, "/", "__")))
	if path, ok := tryExecutableReplay(prog, sp, prop, o, base); ok {
		return path
	}
	var b strings.Builder
	fmt.Fprintf(&b, "obligation: %s\nproperty: %s\nkind: %s\nclause: %s\nat: %s\n", o.Name, prop, o.Kind, o.Text, o.Pos)
	if o.Result != nil {
		fmt.Fprintf(&b, "solver: %s\nstatus: %s\nseconds: %.2f\n", o.Result.Solver, o.Result.Status, o.Result.Secs)
		fmt.Fprintf(&b, "\n---- solver output ----\n%s\n", relevantModel(o.Result.Raw))
	}
	fmt.Fprintf(&b, "\n(no executable replay: the model could not be turned into inputs of the real function)\n")
	path := base + ".txt"
	os.WriteFile(path, []byte(b.String()), 0o644)
	os.WriteFile(base+".smt2", []byte(o.Query+"(get-model)\n"), 0o644)
	return path
}

// relevantModel keeps the parts of a model that name program entities (parameters, loads), dropping internals.
func relevantModel(raw string) string {
	if len(raw) > 20000 {
		raw = raw[:20000] + "\n…(truncated)"
	}
	return raw
}
