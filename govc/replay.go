package main

// Executable replay of a refuted obligation on the real code.
//
// Scope (stated in DESIGN.md): functions and methods whose parameters are integers and booleans, with a receiver (if any)
// that is a pointer to a struct of which the scalar fields (and the scalar fields of structs it points to, one level) are
// set from the model. Obligation kinds: post (the clause is translated to Go and evaluated after the call) and safe (the
// call is expected to panic). Everything else keeps the textual replay and the words no-failing-input-found.
//
// The test is injected into the real package with `go test -overlay`; it is kept as the replay file only if running it on
// /repo's working tree reproduces the violation.

import (
	"encoding/json"
	"fmt"
	"go/types"
	"math/big"
	"os"
	"os/exec"
	"path/filepath"
	"strings"

	"golang.org/x/tools/go/ssa"
)

type replayInfo struct {
	fn     *ssa.Function
	clause Expr            // post obligations: the ensures clause
	params map[string]Term // parameter name -> entry term
	specPkg string
}

func tryExecutableReplay(prog *Program, sp *Specs, prop string, o *Obligation, base string) (string, bool) {
	ri := o.replay
	if ri == nil || ri.fn == nil || o.Result == nil || o.Result.Status == "unsat" {
		return "", false
	}
	if o.Kind != "post" && o.Kind != "safe" {
		return "", false
	}
	fn := ri.fn
	if fn.Parent() != nil || fn.Pkg == nil {
		return "", false
	}
	g := &replayGen{prog: prog, sp: sp, o: o, ri: ri, fn: fn, pkg: fn.Pkg.Pkg}
	src, ok := g.build()
	if !ok {
		return "", false
	}
	// run it on the real code
	dir, err := os.MkdirTemp("", "govc-replay-")
	if err != nil {
		return "", false
	}
	defer os.RemoveAll(dir)
	testFile := filepath.Join(dir, "zz_govc_replay_test.go")
	os.WriteFile(testFile, []byte(src), 0o644)
	pkgDir := filepath.Dir(prog.Fset.Position(fn.Pos()).Filename)
	dest := filepath.Join(pkgDir, "zz_govc_replay_test.go")
	ov, _ := json.Marshal(map[string]map[string]string{"Replace": {dest: testFile}})
	ovPath := filepath.Join(dir, "ov.json")
	os.WriteFile(ovPath, ov, 0o644)
	cmd := exec.Command("go", "test", "-overlay", ovPath, "-vet=off", "-count=1", "-timeout", "60s", "-run", "^TestGovcReplay$", ".")
	cmd.Dir = pkgDir
	cmd.Env = append(os.Environ(), "GOFLAGS=-mod=mod", "GOPROXY=off", "GOSUMDB=off", "GOTOOLCHAIN=local")
	out, _ := cmd.CombinedOutput()
	if !strings.Contains(string(out), "VIOLATION-REPLAYED") {
		return "", false
	}
	path := base + "_replay_test.go"
	header := fmt.Sprintf("// Replay of %s (property %s) on the real code: generated from the solver's model, confirmed by running it.\n// Run: copy (or -overlay) this file into %s as zz_govc_replay_test.go and run `go test -vet=off -run TestGovcReplay .` there.\n// Output when it was generated:\n//   %s\n",
		o.Name, prop, strings.TrimPrefix(pkgDir, repoDir+"/"), strings.ReplaceAll(strings.TrimSpace(firstLines(string(out), 6)), "\n", "\n//   "))
	os.WriteFile(path, []byte(header+src), 0o644)
	return path, true
}

func firstLines(s string, n int) string {
	ls := strings.Split(s, "\n")
	if len(ls) > n {
		ls = ls[:n]
	}
	return strings.Join(ls, "\n")
}

type replayGen struct {
	prog *Program
	sp   *Specs
	o    *Obligation
	ri   *replayInfo
	fn   *ssa.Function
	pkg  *types.Package
	ask  []string          // terms to evaluate in the model
	vals map[string]string // term -> value text
	olds []string          // Go statements computing old(...) values
	nold int
	fail bool
}

func basicScalar(t types.Type) (isInt, isBool bool) {
	b, ok := t.Underlying().(*types.Basic)
	if !ok {
		return false, false
	}
	if b.Info()&types.IsInteger != 0 {
		return true, false
	}
	if b.Info()&types.IsBoolean != 0 {
		return false, true
	}
	return false, false
}

func (g *replayGen) build() (string, bool) {
	sig := g.fn.Signature
	var recvName string
	var recvStruct *types.Struct
	var recvNamed types.Type
	params := g.fn.Params
	start := 0
	if sig.Recv() != nil {
		if len(params) == 0 {
			return "", false
		}
		recvName = params[0].Name()
		pt, ok := params[0].Type().Underlying().(*types.Pointer)
		if !ok {
			return "", false
		}
		st, ok := pt.Elem().Underlying().(*types.Struct)
		if !ok {
			return "", false
		}
		recvStruct, recvNamed = st, pt.Elem()
		start = 1
	}
	for _, p := range params[start:] {
		if i, b := basicScalar(p.Type()); !i && !b {
			return "", false
		}
	}
	// terms to read from the model
	type fieldSet struct {
		path string // Go path from the receiver, e.g. ".commonFields.MessageLengthLimit"
		term string
		typ  types.Type
	}
	var fields []fieldSet
	var allocs []string // Go statements allocating pointed-to structs
	query := g.o.Query
	if g.o.Result.Status != "sat" {
		// no model of the full query (quantified assumptions make the solver give up on satisfiable goals): take a model
		// of the quantifier-free relaxation as a CANDIDATE; it only counts if the real code reproduces the violation
		var keep []string
		for _, ln := range strings.Split(query, "\n") {
			if strings.Contains(ln, "(forall ") || strings.Contains(ln, "(exists ") {
				continue
			}
			keep = append(keep, ln)
		}
		query = strings.Join(keep, "\n")
	}
	comp := func(st types.Type, f string) string { return "H1." + sanitize("F."+structName(st)+"."+f) }
	if recvStruct != nil {
		rt, ok := g.ri.params[recvName]
		if !ok {
			return "", false
		}
		for i := 0; i < recvStruct.NumFields(); i++ {
			f := recvStruct.Field(i)
			c := comp(recvNamed, f.Name())
			if !strings.Contains(query, c+" ") && !strings.Contains(query, c+")") {
				continue
			}
			if isI, isB := basicScalar(f.Type()); isI || isB {
				fields = append(fields, fieldSet{"." + f.Name(), "(select " + c + " " + rt.S + ")", f.Type()})
				continue
			}
			if pt, ok := f.Type().Underlying().(*types.Pointer); ok {
				if st2, ok := pt.Elem().Underlying().(*types.Struct); ok {
					if _, named := pt.Elem().(*types.Named); !named {
						continue
					}
					inner := "(select " + c + " " + rt.S + ")"
					used := false
					for j := 0; j < st2.NumFields(); j++ {
						f2 := st2.Field(j)
						c2 := comp(pt.Elem(), f2.Name())
						if !strings.Contains(query, c2+" ") && !strings.Contains(query, c2+")") {
							continue
						}
						if isI, isB := basicScalar(f2.Type()); isI || isB {
							fields = append(fields, fieldSet{"." + f.Name() + "." + f2.Name(), "(select " + c2 + " " + inner + ")", f2.Type()})
							used = true
						}
					}
					if used {
						allocs = append(allocs, fmt.Sprintf("\trecv.%s = &%s{}\n", f.Name(), types.TypeString(pt.Elem(), types.RelativeTo(g.pkg))))
					}
				}
			}
		}
	}
	var asks []string
	for _, p := range params[start:] {
		t, ok := g.ri.params[p.Name()]
		if !ok {
			return "", false
		}
		asks = append(asks, t.S)
	}
	for _, f := range fields {
		asks = append(asks, f.term)
	}
	vals, ok := evalInModel(query, asks)
	if !ok {
		return "", false
	}
	var b strings.Builder
	fmt.Fprintf(&b, "package %s\n\nimport \"testing\"\n\n", g.pkg.Name())
	b.WriteString("func govcIte(c bool, a, b int64) int64 {\n\tif c {\n\t\treturn a\n\t}\n\treturn b\n}\n\nvar _ = govcIte\n\n")
	b.WriteString("func TestGovcReplay(t *testing.T) {\n")
	fmt.Fprintf(&b, "\t// obligation: %s\n\t// clause:     %s\n", g.o.Name, strings.ReplaceAll(g.o.Text, "\n", " "))
	lit := func(v string, t types.Type) (string, bool) {
		isI, isB := basicScalar(t)
		ts := types.TypeString(t, types.RelativeTo(g.pkg))
		if isB {
			if v == "true" || v == "false" {
				return v, true
			}
			return "", false
		}
		if isI {
			n, ok := parseSMTInt(v)
			if !ok {
				return "", false
			}
			lo, hi := intRange(t)
			if n.Cmp(lo) < 0 || n.Cmp(hi) > 0 {
				return "", false // the model uses a value the machine type cannot hold
			}
			// a typed variable, so that out-of-range constants are compile errors rather than silent wraps
			return fmt.Sprintf("%s(%s)", ts, n.String()), true
		}
		return "", false
	}
	if recvStruct != nil {
		fmt.Fprintf(&b, "\trecv := &%s{}\n", types.TypeString(recvNamed, types.RelativeTo(g.pkg)))
		for _, a := range allocs {
			b.WriteString(a)
		}
		for _, f := range fields {
			l, ok := lit(vals[f.term], f.typ)
			if !ok {
				return "", false
			}
			fmt.Fprintf(&b, "\trecv%s = %s\n", f.path, l)
		}
		fmt.Fprintf(&b, "\t%s := recv\n\t_ = %s\n", recvName, recvName)
	}
	var argNames []string
	for _, p := range params[start:] {
		l, ok := lit(vals[g.ri.params[p.Name()].S], p.Type())
		if !ok {
			return "", false
		}
		fmt.Fprintf(&b, "\t%s := %s\n\t_ = %s\n", p.Name(), l, p.Name())
		argNames = append(argNames, p.Name())
	}
	call := g.fn.Name() + "(" + strings.Join(argNames, ", ") + ")"
	if recvStruct != nil {
		call = "recv." + call
	}
	nres := sig.Results().Len()
	var resNames []string
	for i := 0; i < nres; i++ {
		resNames = append(resNames, fmt.Sprintf("r%d", i))
	}
	if g.o.Kind == "safe" {
		b.WriteString("\tdefer func() {\n\t\tif x := recover(); x != nil {\n\t\t\tt.Fatalf(\"VIOLATION-REPLAYED: the call panics: %v\", x)\n\t\t}\n\t}()\n")
		if nres > 0 {
			fmt.Fprintf(&b, "\t%s = %s\n", strings.Repeat("_, ", nres-1)+"_", call)
		} else {
			fmt.Fprintf(&b, "\t%s\n", call)
		}
		b.WriteString("\tt.Log(\"MODEL-NOT-REPRODUCED: no panic\")\n}\n")
		return b.String(), true
	}
	// post: translate the clause
	g.vals = vals
	expr := g.goExpr(g.ri.clause, map[string]Expr{}, recvName, resNames)
	if g.fail {
		return "", false
	}
	for _, s := range g.olds {
		b.WriteString(s)
	}
	if nres > 0 {
		fmt.Fprintf(&b, "\t%s := %s\n", strings.Join(resNames, ", "), call)
		for _, r := range resNames {
			fmt.Fprintf(&b, "\t_ = %s\n", r)
		}
	} else {
		fmt.Fprintf(&b, "\t%s\n", call)
	}
	fmt.Fprintf(&b, "\tholds := %s\n", expr)
	var shown []string
	for _, r := range resNames {
		shown = append(shown, r)
	}
	fmt.Fprintf(&b, "\tif !holds {\n\t\tt.Fatalf(\"VIOLATION-REPLAYED: the clause is false on the real code; results: %%v\", []interface{}{%s})\n\t}\n", strings.Join(shown, ", "))
	b.WriteString("\tt.Log(\"MODEL-NOT-REPRODUCED: the clause holds for these inputs\")\n}\n")
	return b.String(), true
}

// goExpr translates a clause into Go. Integers are compared as int64; anything outside the supported subset sets g.fail.
func (g *replayGen) goExpr(x Expr, subst map[string]Expr, recvName string, res []string) string {
	if g.fail {
		return "false"
	}
	switch x := x.(type) {
	case *EInt:
		return "int64(" + x.V.String() + ")"
	case *EIdent:
		if e, ok := subst[x.Name]; ok {
			return g.goExpr(e, map[string]Expr{}, recvName, res)
		}
		switch x.Name {
		case "true", "false", "nil":
			return x.Name
		case "result":
			if len(res) == 1 {
				return g.wrap(res[0], g.fn.Signature.Results().At(0).Type())
			}
		}
		if strings.HasPrefix(x.Name, "result") {
			var k int
			if _, err := fmt.Sscanf(x.Name, "result%d", &k); err == nil && k < len(res) {
				return g.wrap(res[k], g.fn.Signature.Results().At(k).Type())
			}
		}
		for i := 0; i < g.fn.Signature.Results().Len(); i++ {
			if g.fn.Signature.Results().At(i).Name() == x.Name && x.Name != "" {
				return g.wrap(res[i], g.fn.Signature.Results().At(i).Type())
			}
		}
		for _, p := range g.fn.Params {
			if p.Name() == x.Name {
				return g.wrap(x.Name, p.Type())
			}
		}
		if obj := g.pkg.Scope().Lookup(x.Name); obj != nil {
			switch obj.(type) {
			case *types.Const, *types.Var:
				return g.wrap(x.Name, obj.Type())
			}
		}
		g.fail = true
		return "false"
	case *ESel:
		// field path from a parameter
		t := g.typeOf(x)
		if t == nil {
			g.fail = true
			return "false"
		}
		return g.wrap(g.plainPath(x, subst), t)
	case *EUnary:
		switch x.Op {
		case "!":
			return "!(" + g.goExpr(x.X, subst, recvName, res) + ")"
		case "-":
			return "-(" + g.goExpr(x.X, subst, recvName, res) + ")"
		}
	case *EBinary:
		a := g.goExpr(x.X, subst, recvName, res)
		c := g.goExpr(x.Y, subst, recvName, res)
		switch x.Op {
		case "==>":
			return "(!(" + a + ") || (" + c + "))"
		case "<==>":
			return "((" + a + ") == (" + c + "))"
		case "&&", "||", "==", "!=", "<", "<=", ">", ">=", "+", "-", "*", "/", "%":
			return "(" + a + " " + x.Op + " " + c + ")"
		}
	case *ECall:
		id, _ := x.Fun.(*EIdent)
		if id == nil {
			break
		}
		switch id.Name {
		case "old":
			if len(x.Args) == 1 {
				inner := g.goExpr(x.Args[0], subst, recvName, nil) // results are not visible in old(...)
				if g.fail {
					return "false"
				}
				g.nold++
				n := fmt.Sprintf("old%d", g.nold)
				g.olds = append(g.olds, fmt.Sprintf("\t%s := %s\n", n, inner))
				return n
			}
		case "ite":
			if len(x.Args) == 3 {
				return "govcIte(" + g.goExpr(x.Args[0], subst, recvName, res) + ", " + g.goExpr(x.Args[1], subst, recvName, res) + ", " + g.goExpr(x.Args[2], subst, recvName, res) + ")"
			}
		}
		if p, ok := g.sp.Preds[g.ri.specPkg+"."+id.Name]; ok && len(p.Params) == len(x.Args) {
			ns := map[string]Expr{}
			for i, prm := range p.Params {
				// substitute arguments (already closed under the caller's substitution)
				ns[prm.Name] = substExpr(x.Args[i], subst)
			}
			return g.goExpr(p.Body, ns, recvName, res)
		}
	}
	g.fail = true
	return "false"
}

func (g *replayGen) wrap(goText string, t types.Type) string {
	if isI, _ := basicScalar(t); isI {
		return "int64(" + goText + ")"
	}
	return goText
}

func (g *replayGen) plainPath(x Expr, subst map[string]Expr) string {
	switch x := x.(type) {
	case *EIdent:
		if e, ok := subst[x.Name]; ok {
			return g.plainPath(e, map[string]Expr{})
		}
		return x.Name
	case *ESel:
		return g.plainPath(x.X, subst) + "." + x.Sel
	}
	g.fail = true
	return "_"
}

func (g *replayGen) typeOf(x Expr) types.Type {
	switch x := x.(type) {
	case *EIdent:
		for _, p := range g.fn.Params {
			if p.Name() == x.Name {
				return p.Type()
			}
		}
		return nil
	case *ESel:
		bt := g.typeOf(x.X)
		if bt == nil {
			return nil
		}
		obj, _, _ := types.LookupFieldOrMethod(bt, true, g.pkg, x.Sel)
		if v, ok := obj.(*types.Var); ok {
			return v.Type()
		}
	}
	return nil
}

func substExpr(x Expr, subst map[string]Expr) Expr {
	if len(subst) == 0 {
		return x
	}
	switch x := x.(type) {
	case *EIdent:
		if e, ok := subst[x.Name]; ok {
			return e
		}
		return x
	case *EUnary:
		return &EUnary{x.Op, substExpr(x.X, subst)}
	case *EBinary:
		return &EBinary{x.Op, substExpr(x.X, subst), substExpr(x.Y, subst)}
	case *ECall:
		var as []Expr
		for _, a := range x.Args {
			as = append(as, substExpr(a, subst))
		}
		return &ECall{x.Fun, as}
	case *ESel:
		return &ESel{substExpr(x.X, subst), x.Sel}
	case *EIndex:
		return &EIndex{substExpr(x.X, subst), substExpr(x.I, subst)}
	}
	return x
}

// evalInModel asks the solver for the values of the given terms in a model of the query.
func evalInModel(query string, terms []string) (map[string]string, bool) {
	vals := map[string]string{}
	if len(terms) == 0 {
		return vals, true
	}
	q := query + "(get-value (" + strings.Join(terms, " ") + "))\n"
	res := solveWith("z3-new", "replay.eval", q, 10)
	if res.Status != "sat" {
		res = solveWith("z3", "replay.eval", q, 10)
	}
	if res.Status != "sat" {
		return nil, false
	}
	raw := res.Raw
	k := strings.LastIndex(raw, "((")
	if k < 0 {
		return nil, false
	}
	body := raw[k+1:]
	// pairs "(term value)" in order
	pos := 0
	for _, t := range terms {
		i := strings.Index(body[pos:], "("+t+" ")
		if i < 0 {
			return nil, false
		}
		i += pos + len(t) + 2
		// value: an atom or a parenthesised term
		j := i
		if body[j] == '(' {
			depth := 0
			for ; j < len(body); j++ {
				if body[j] == '(' {
					depth++
				} else if body[j] == ')' {
					depth--
					if depth == 0 {
						j++
						break
					}
				}
			}
		} else {
			for j < len(body) && body[j] != ')' && body[j] != ' ' && body[j] != '\n' {
				j++
			}
		}
		vals[t] = strings.TrimSpace(body[i:j])
		pos = j
	}
	return vals, true
}

// parseSMTInt reads an SMT-LIB integer value: 5, (- 5).
func parseSMTInt(v string) (*big.Int, bool) {
	v = strings.TrimSpace(v)
	neg := false
	if strings.HasPrefix(v, "(-") && strings.HasSuffix(v, ")") {
		neg = true
		v = strings.TrimSpace(v[2 : len(v)-1])
	}
	n, ok := new(big.Int).SetString(v, 10)
	if !ok {
		return nil, false
	}
	if neg {
		n.Neg(n)
	}
	return n, true
}
