package main

// tryExecutableReplay turns a solver model into a Go test run against the real code (see replay_gen.go).
func tryExecutableReplay(prog *Program, sp *Specs, prop string, o *Obligation, base string) (string, bool) {
	return "", false
}
