package main

import (
	"fmt"
	"go/token"
	"go/types"
	"sort"
	"strings"

	"golang.org/x/tools/go/ssa"
)

func (r *Run) isLockCall(f *ssa.Function) string {
	switch f.String() {
	case "(*sync.Mutex).Lock", "(*sync.RWMutex).Lock":
		return "lock"
	case "(*sync.Mutex).Unlock", "(*sync.RWMutex).Unlock":
		return "unlock"
	case "(*sync.RWMutex).RLock":
		return "rlock"
	case "(*sync.RWMutex).RUnlock":
		return "runlock"
	}
	return ""
}

func (r *Run) monitorByComp(comp string) *Monitor {
	// several "protected" declarations for the same mutex add up
	var merged *Monitor
	for _, m := range r.specs.Monitors {
		if "F."+m.Pkg+"."+m.Struct+"."+m.Mutex == comp {
			if merged == nil {
				c := *m
				c.Fields = append([]string(nil), m.Fields...)
				c.Inv = append([]Clause(nil), m.Inv...)
				c.LockGhost = append([]GhostAssign(nil), m.LockGhost...)
				c.UnlockGhost = append([]GhostAssign(nil), m.UnlockGhost...)
				merged = &c
			} else {
				merged.Fields = append(merged.Fields, m.Fields...)
				merged.Inv = append(merged.Inv, m.Inv...)
				merged.LockGhost = append(merged.LockGhost, m.LockGhost...)
				merged.UnlockGhost = append(merged.UnlockGhost, m.UnlockGhost...)
			}
		}
	}
	return merged
}

func (r *Run) monitorFor(fa *ssa.FieldAddr) *Monitor {
	return r.monitorByComp(r.fieldAddrComp(fa))
}

// monitorComps lists the heap components a Lock on this monitor havocs (at the locked object).
func (r *Run) monitorComps(m *Monitor) []string {
	var out []string
	for _, f := range m.Fields {
		switch {
		case strings.Contains(f, "["):
			out = append(out, "ghost."+f[:strings.Index(f, "[")])
		case strings.HasPrefix(f, "elems("):
			out = append(out, "E.*")
		case strings.Contains(f, "."):
			out = append(out, "F."+m.Pkg+"."+f)
		default:
			out = append(out, "F."+m.Pkg+"."+m.Struct+"."+f)
		}
	}
	return out
}

func (r *Run) monitorType(m *Monitor) types.Type {
	p := r.pkgByShort(m.Pkg)
	if p == nil {
		return nil
	}
	o := p.Scope().Lookup(m.Struct)
	if o == nil {
		return nil
	}
	return o.Type()
}

func (r *Run) pkgByShort(short string) *types.Package {
	path := repoModule
	if short != "nbio" {
		path = repoModule + "/" + short
	}
	if sp, ok := r.prog.ByPkg[path]; ok {
		return sp.Pkg
	}
	return r.findPackage(short)
}

func lockOrdinal(fn *ssa.Function, target ssa.Instruction, kinds map[string]bool, classify func(*ssa.Function) string) int {
	type item struct {
		pos token.Pos
		ins ssa.Instruction
	}
	var items []item
	for _, b := range fn.Blocks {
		for _, ins := range b.Instrs {
			var cc *ssa.CallCommon
			switch x := ins.(type) {
			case *ssa.Call:
				cc = &x.Call
			case *ssa.Defer:
				cc = &x.Call
			}
			if cc == nil || cc.IsInvoke() {
				continue
			}
			if f, ok := cc.Value.(*ssa.Function); ok && kinds[classify(f)] {
				items = append(items, item{ins.Pos(), ins})
			}
		}
	}
	sort.SliceStable(items, func(i, j int) bool { return items[i].pos < items[j].pos })
	for i, it := range items {
		if it.ins == target {
			return i + 1
		}
	}
	return 0
}

// callOrdinal: ordinal (by source position) of this call among calls to the same callee name in fn.
func callOrdinal(fn *ssa.Function, target ssa.Instruction, name string, nameOf func(*ssa.CallCommon) string) int {
	type item struct {
		pos token.Pos
		ins ssa.Instruction
	}
	var items []item
	for _, b := range fn.Blocks {
		for _, ins := range b.Instrs {
			var cc *ssa.CallCommon
			switch x := ins.(type) {
			case *ssa.Call:
				cc = &x.Call
			case *ssa.Defer:
				cc = &x.Call
			case *ssa.Go:
				cc = &x.Call
			}
			if cc != nil && nameOf(cc) == name {
				items = append(items, item{ins.Pos(), ins})
			}
		}
	}
	sort.SliceStable(items, func(i, j int) bool { return items[i].pos < items[j].pos })
	for i, it := range items {
		if it.ins == target {
			return i + 1
		}
	}
	return 0
}

func (r *Run) calleeShortName(fr *Frame, cc *ssa.CallCommon) string {
	if cc.IsInvoke() {
		return cc.Method.Name()
	}
	switch f := cc.Value.(type) {
	case *ssa.Function:
		return f.Name()
	case *ssa.Builtin:
		return f.Name()
	case *ssa.MakeClosure:
		return f.Fn.Name()
	}
	if fr != nil {
		if fn := r.staticClosure(fr, cc.Value); fn != nil {
			return fn.Name()
		}
	}
	if key := r.fieldFuncKey(cc.Value); key != "" {
		return key[strings.LastIndex(key, ".")+1:]
	}
	if v, ok := cc.Value.(interface{ Parent() *ssa.Function }); ok && v.Parent() != nil {
		if key := paramFuncKey(v.Parent(), cc.Value); key != "" && r.specs.Funcs[key] != nil {
			return key[strings.LastIndex(key, ".")+1:]
		}
	}
	return "dyn"
}

// fieldFuncKey: the callee is loaded from a func-typed struct field -> "field:<pkg>.<Struct>.<field>".
func (r *Run) fieldFuncKey(v ssa.Value) string {
	u, ok := v.(*ssa.UnOp)
	if !ok || u.Op != token.MUL {
		return ""
	}
	if a, ok := u.X.(*ssa.Alloc); ok {
		// a local that only ever holds the value of one func-typed field
		key := ""
		for _, ref := range *a.Referrers() {
			if s, ok := ref.(*ssa.Store); ok && s.Addr == a {
				k := r.fieldFuncKey(s.Val)
				if k == "" || (key != "" && k != key) {
					return ""
				}
				key = k
			}
		}
		return key
	}
	if fv, ok := u.X.(*ssa.FreeVar); ok {
		// a captured local of the enclosing function that only ever holds one func-typed field's value
		fn := fv.Parent()
		if fn == nil || fn.Parent() == nil {
			return ""
		}
		for _, ref := range *fv.Referrers() {
			if s, ok := ref.(*ssa.Store); ok && s.Addr == fv {
				return ""
			}
		}
		mc := findMakeClosure(fn.Parent(), fn)
		if mc == nil {
			return ""
		}
		for i, f := range fn.FreeVars {
			if f == fv && i < len(mc.Bindings) {
				if a, ok := mc.Bindings[i].(*ssa.Alloc); ok {
					key := ""
					for _, ref := range *a.Referrers() {
						if s, ok := ref.(*ssa.Store); ok && s.Addr == a {
							k := r.fieldFuncKey(s.Val)
							if k == "" || (key != "" && k != key) {
								return ""
							}
							key = k
						}
					}
					return key
				}
			}
		}
		return ""
	}
	fa, ok := u.X.(*ssa.FieldAddr)
	if !ok {
		return ""
	}
	pt := fa.X.Type().Underlying().(*types.Pointer)
	st := pt.Elem().Underlying().(*types.Struct)
	return "field:" + structName(pt.Elem()) + "." + st.Field(fa.Field).Name()
}

// paramFuncKey: the callee is a func-typed parameter of fn, or a variable fn captured -> "param:<fn>.<name>".
func paramFuncKey(fn *ssa.Function, v ssa.Value) string {
	if p, ok := v.(*ssa.Parameter); ok {
		return "param:" + funcKey(fn) + "." + p.Name()
	}
	u, ok := v.(*ssa.UnOp)
	if !ok || u.Op != token.MUL {
		return ""
	}
	switch x := u.X.(type) {
	case *ssa.FreeVar:
		return "param:" + funcKey(fn) + "." + x.Name()
	case *ssa.Alloc:
		for _, ref := range *x.Referrers() {
			if s, ok := ref.(*ssa.Store); ok && s.Addr == x {
				if p, ok := s.Val.(*ssa.Parameter); ok {
					return "param:" + funcKey(fn) + "." + p.Name()
				}
				return ""
			}
		}
	}
	return ""
}

// execCall dispatches a call. deferred != nil means the operands were captured at the defer statement.
func (r *Run) execCall(fr *Frame, st *State, reach Term, cc *ssa.CallCommon, instr ssa.Instruction, deferred *DeferEntry) (Val, Term) {
	var args []Val
	var fnVal Val
	if deferred != nil {
		args = deferred.args
		fnVal = deferred.fn
	} else {
		for _, a := range cc.Args {
			args = append(args, r.operand(fr, st, a))
		}
		fnVal = r.operand(fr, st, cc.Value)
	}
	sig := cc.Signature()
	resType := types.Type(sig.Results())
	if sig.Results().Len() == 1 {
		resType = sig.Results().At(0).Type()
	}
	fresh := func(hint string) Val {
		if sig.Results().Len() == 0 {
			return Val{Kind: VNone}
		}
		return r.freshTyped(hint, resType, st)
	}
	// addresses handed to the callee: what they designate is the callee's to change
	r.escaping = map[string]bool{}
	if fnVal.Kind == VFunc {
		for _, b := range fnVal.Bind {
			if b.Kind == VTerm {
				r.escaping[b.T.S] = true
			}
		}
	}
	for _, a := range args {
		switch a.Kind {
		case VTerm:
			r.escaping[a.T.S] = true
		case VFunc:
			for _, b := range a.Bind {
				if b.Kind == VTerm {
					r.escaping[b.T.S] = true
				}
			}
		}
	}
	// a function literal handed to someone else (an executor, a timer): whoever runs it relies on its precondition,
	// so it is an obligation here, with the captured variables at their current values
	for _, a := range args {
		if a.Kind == VFunc && a.Fn != nil && a.Fn.Parent() != nil {
			r.spawnObligations(fr, st, reach, a, instr)
		}
	}
	if cc.IsInvoke() {
		key := "iface:" + ifaceKey(cc.Value.Type(), cc.Method.Name())
		if sp := r.specs.Funcs[key]; sp != nil {
			names := []string{"self"}
			msig := cc.Method.Type().(*types.Signature)
			for i := 0; i < msig.Params().Len(); i++ {
				n := msig.Params().At(i).Name()
				if n == "" || n == "_" {
					n = fmt.Sprintf("arg%d", i)
				}
				names = append(names, n)
			}
			if len(sp.Params) > 0 {
				names = append([]string{"self"}, sp.Params...)
			}
			all := append([]Val{fnVal}, args...)
			return r.callWithSpec(fr, st, reach, sp, msig, names, all, instr, cc.Method.Name())
		}
		r.warn("uncontracted interface call %s", key)
		r.havocAll(st, reach)
		return fresh("invoke." + cc.Method.Name()), reach
	}
	switch f := cc.Value.(type) {
	case *ssa.Builtin:
		if instr != nil && (f.Name() == "copy" || f.Name() == "append") {
			// anchors before copy / append (ghost code and assertions about what is read or written)
			ord := callOrdinal(instr.Parent(), instr, f.Name(), func(c *ssa.CallCommon) string { return r.calleeShortName(nil, c) })
			av := map[string]Val{}
			names := []string{"arg_dst", "arg_src"}
			if f.Name() == "append" {
				names = []string{"arg_s", "arg_elems"}
			}
			for i, n := range names {
				if i < len(args) {
					av[n] = args[i]
				}
			}
			r.ghostAt(fr, st, reach, fmt.Sprintf("before:%s#%d", f.Name(), ord), instr, av)
		}
		return r.builtin(fr, st, reach, f.Name(), cc, args, instr), reach
	}
	// resolve the function statically where possible
	var callee *ssa.Function
	var binds []Val
	if fnVal.Kind == VFunc {
		callee = fnVal.Fn
		binds = fnVal.Bind
	}
	if callee == nil && deferred == nil {
		// a sibling literal called through a captured variable of the enclosing function (e.g. a local helper
		// closure used inside another literal): both capture the same variables of the parent
		if fn, b := r.siblingClosure(fr, cc.Value); fn != nil {
			callee, binds = fn, b
		}
	}
	if callee != nil {
		return r.callStatic(fr, st, reach, callee, binds, args, instr, cc)
	}
	// dynamic: func-typed field with a declared contract?
	key := r.fieldFuncKey(cc.Value)
	if key == "" && fnVal.Kind == VTerm && strings.HasPrefix(fnVal.Src, "F.") {
		// the function value was copied from a field into a local first
		key = "field:" + strings.TrimPrefix(fnVal.Src, "F.")
	}
	if key == "" {
		// a func-typed parameter (or captured parameter of the enclosing function) with a declared contract
		if k := paramFuncKey(fr.fn, cc.Value); k != "" && r.specs.Funcs[k] != nil {
			key = k
		}
	}
	if key != "" {
		if sp := r.specs.Funcs[key]; sp != nil {
			var names []string
			for i := 0; i < sig.Params().Len(); i++ {
				n := sig.Params().At(i).Name()
				if n == "" || n == "_" {
					n = fmt.Sprintf("arg%d", i)
				}
				names = append(names, n)
			}
			if len(sp.Params) > 0 {
				names = sp.Params
			}
			return r.callWithSpec(fr, st, reach, sp, sig, names, args, instr, key[strings.LastIndex(key, ".")+1:])
		}
		r.warn("uncontracted call through %s", key)
	} else {
		r.warn("uncontracted dynamic call in %s", funcKey(fr.fn))
	}
	r.havocAll(st, reach)
	return fresh("dyncall"), reach
}

func (r *Run) callStatic(fr *Frame, st *State, reach Term, callee *ssa.Function, binds []Val, args []Val, instr ssa.Instruction, cc *ssa.CallCommon) (Val, Term) {
	sig := callee.Signature
	resType := types.Type(sig.Results())
	if sig.Results().Len() == 1 {
		resType = sig.Results().At(0).Type()
	}
	fresh := func(hint string) Val {
		if sig.Results().Len() == 0 {
			return Val{Kind: VNone}
		}
		return r.freshTyped(hint, resType, st)
	}
	if k := r.isLockCall(callee); k != "" {
		r.lockOp(fr, st, reach, k, args, instr)
		return Val{Kind: VNone}, reach
	}
	switch callee.String() {
	case "ssa:deferstack", "ssa:wrapnilchk":
		if callee.String() == "ssa:wrapnilchk" && len(args) > 0 {
			return args[0], reach
		}
		return fresh("ssa"), reach
	}
	inRepo := false
	root := callee
	for root.Parent() != nil {
		root = root.Parent()
	}
	if root.Pkg != nil && strings.HasPrefix(root.Pkg.Pkg.Path(), repoModule) {
		inRepo = true
	}
	var sp *FuncSpec
	if inRepo {
		sp = r.specs.Funcs[funcKey(callee)]
	} else {
		sp = r.specs.Funcs[callee.String()]
	}
	if sp != nil && !sp.Inline {
		var names []string
		for _, p := range callee.Params {
			names = append(names, p.Name())
		}
		if len(callee.Params) == 0 && sig.Params().Len() > 0 {
			// external without body: names from the signature
			if sig.Recv() != nil {
				n := sig.Recv().Name()
				if n == "" || n == "_" {
					n = "self"
				}
				names = append(names, n)
			}
			for i := 0; i < sig.Params().Len(); i++ {
				n := sig.Params().At(i).Name()
				if n == "" || n == "_" {
					n = fmt.Sprintf("arg%d", i)
				}
				names = append(names, n)
			}
		}
		if len(sp.Params) > 0 {
			names = sp.Params
		}
		if callee.Parent() != nil {
			// a function literal called under its own contract: its captured variables are visible by name
			cargs := append([]Val(nil), args...)
			cnames := append([]string(nil), names...)
			r.fvLocs = map[string]*Loc{}
			for i, fv := range callee.FreeVars {
				if i < len(binds) {
					if l := r.derefLoc(binds[i]); l != nil {
						cnames = append(cnames, fv.Name())
						cargs = append(cargs, r.loadTyped(st, l))
						r.fvLocs[fv.Name()] = l
					}
				}
			}
			res, nr := r.callWithSpec(fr, st, reach, sp, sig, cnames, cargs, instr, callee.Name())
			r.fvLocs = nil
			return res, nr
		}
		return r.callWithSpec(fr, st, reach, sp, sig, names, args, instr, callee.Name())
	}
	// in-place expansion: function literals of the function under verification, and helpers marked inline
	if len(callee.Blocks) > 0 && (callee.Parent() != nil || (sp != nil && sp.Inline)) {
		if fr.inlineDepth < maxInlineDepth {
			// anchors of the caller's contract around an inlined call
			short, ord := "", 0
			if instr != nil && cc != nil {
				short = r.calleeShortName(nil, cc)
				ord = callOrdinal(instr.Parent(), instr, short, func(c *ssa.CallCommon) string { return r.calleeShortName(nil, c) })
				av := map[string]Val{}
				for i, p := range callee.Params {
					if i < len(args) {
						av["arg_"+p.Name()] = args[i]
					}
				}
				r.ghostAt(fr, st, reach, fmt.Sprintf("before:%s#%d", short, ord), instr, av)
			}
			res, nr := r.inlineCall(fr, st, reach, callee, binds, args)
			if short != "" {
				rv := map[string]Val{}
				for i, p := range callee.Params {
					if i < len(args) {
						rv["arg_"+p.Name()] = args[i]
					}
				}
				if res.Kind == VTuple {
					for i := range res.Tup {
						rv[fmt.Sprintf("result%d", i)] = res.Tup[i]
					}
				} else if res.Kind != VNone {
					rv["result"] = res
				}
				r.ghostAt(fr, st, nr, fmt.Sprintf("call:%s#%d", short, ord), instr, rv)
			}
			return res, nr
		}
		r.warn("inline depth exceeded at %s", funcKey(callee))
	}
	if inRepo && len(callee.Blocks) > 0 && fr.inlineDepth < maxInlineDepth && !r.onInlineStack(fr, callee) && !hasLoops(callee) {
		// a helper of the library without a contract (for instance one a refactoring has just extracted): expand it in
		// place rather than forget everything at the call
		r.warn("call to %s without contract: expanded in place", funcKey(callee))
		r.nextAutoInline = true
		return r.inlineCall(fr, st, reach, callee, binds, args)
	}
	if inRepo {
		r.warn("call to %s without contract: everything havocked", funcKey(callee))
	} else {
		r.warn("call to %s without trusted contract: everything havocked", callee.String())
	}
	r.havocAll(st, reach)
	return fresh("call." + callee.Name()), reach
}

func (r *Run) inlineCall(fr *Frame, st *State, reach Term, callee *ssa.Function, binds []Val, args []Val) (Val, Term) {
	sub := r.newFrame(callee, fr)
	sub.entry = r.top.entry
	for i, p := range callee.Params {
		if i < len(args) {
			sub.regs[p] = args[i]
			sub.params = append(sub.params, args[i])
		}
	}
	for i, fv := range callee.FreeVars {
		if i < len(binds) {
			sub.free[fv] = binds[i]
		}
	}
	r.execFrame(sub, st.clone(), reach)
	if len(sub.rets) == 0 {
		// no normal return: the rest of the caller's block is unreachable
		return r.freshTypedResults(callee.Signature, st), tFalse
	}
	var conds []Term
	var sts []*State
	for _, rp := range sub.rets {
		conds = append(conds, rp.reach)
		sts = append(sts, rp.st)
	}
	merged := r.mergeStates(conds, sts)
	nreach0 := Or(conds...)
	if sp := r.specFor(callee); sp != nil && (len(sp.Ghost) > 0 || len(sp.Asserts) > 0) {
		// ghost code anchored at the inlined function's return
		r.ghostAt(sub, merged, nreach0, "return", nil)
	}
	// drop the callee's cells
	for k := range merged.cells {
		if k.frame == sub.id {
			delete(merged.cells, k)
		}
	}
	*st = *merged
	nreach := r.ctx.Define(fmt.Sprintf("Rret%d", sub.id), Or(conds...))
	nres := callee.Signature.Results().Len()
	switch nres {
	case 0:
		return Val{Kind: VNone}, nreach
	case 1:
		var vals []Val
		for _, rp := range sub.rets {
			vals = append(vals, rp.vals[0])
		}
		return r.mergeVals(conds, vals, "ret"), nreach
	}
	var tup []Val
	for i := 0; i < nres; i++ {
		var vals []Val
		for _, rp := range sub.rets {
			vals = append(vals, rp.vals[i])
		}
		tup = append(tup, r.mergeVals(conds, vals, fmt.Sprintf("ret%d", i)))
	}
	return Val{Kind: VTuple, Tup: tup, Typ: callee.Signature.Results()}, nreach
}

func (r *Run) freshTypedResults(sig *types.Signature, st *State) Val {
	switch sig.Results().Len() {
	case 0:
		return Val{Kind: VNone}
	case 1:
		return r.freshTyped("res", sig.Results().At(0).Type(), st)
	}
	return r.freshTyped("res", sig.Results(), st)
}

// specEnvPkg finds the types.Package in which a spec's identifiers resolve.
func (r *Run) specEnvPkg(sp *FuncSpec) *types.Package {
	if sp.Pkg != "" {
		if p := r.pkgByShort(sp.Pkg); p != nil {
			return p
		}
	}
	return nil
}

func resultNames(sig *types.Signature, sp *FuncSpec) []string {
	var names []string
	for i := 0; i < sig.Results().Len(); i++ {
		n := sig.Results().At(i).Name()
		if n == "" || n == "_" {
			n = fmt.Sprintf("result%d", i)
		}
		names = append(names, n)
	}
	if sp != nil && len(sp.Results) == len(names) {
		names = sp.Results
	}
	return names
}

func (r *Run) callWithSpec(fr *Frame, st *State, reach Term, sp *FuncSpec, sig *types.Signature, names []string, args []Val, instr ssa.Instruction, short string) (Val, Term) {
	if sp.Trusted {
		r.trusted["contract of "+strings.TrimPrefix(strings.TrimPrefix(sp.Key, "iface:"), "field:")+" ("+sp.Kind+") assumed"] = true
	}
	env := &Env{r: r, vars: map[string]Val{}, oldVars: map[string]Val{}, st: st, old: st, pkg: r.specEnvPkg(sp), specPkg: sp.Pkg}
	for i, n := range names {
		if i < len(args) {
			env.vars[n] = args[i]
		}
	}
	if sp.Implements != "" {
		// the function promises the interface method's contract too: same clauses, interface parameter names
		isp := r.specs.Funcs["iface:"+sp.Implements]
		if isp == nil {
			r.fatal = "no interface contract " + sp.Implements
			return r.freshTypedResults(sig, st), reach
		}
		inames := append([]string{"self"}, r.ifaceParamNames(isp, sp.Implements)...)
		for i, n := range inames {
			if i < len(args) {
				if _, clash := env.vars[n]; clash && !sameVal(env.vars[n], args[i]) {
					r.fatal = fmt.Sprintf("%s implements %s: parameter name %q clashes", sp.Key, sp.Implements, n)
					return r.freshTypedResults(sig, st), reach
				}
				env.vars[n] = args[i]
			}
		}
		m := *sp
		m.Implements = ""
		m.Requires = append(append([]Clause(nil), isp.Requires...), sp.Requires...)
		m.Ensures = append(append([]Clause(nil), isp.Ensures...), sp.Ensures...)
		m.Assigns = append(append([]Expr(nil), isp.Assigns...), sp.Assigns...)
		sp = &m
	}
	ord := 0
	if instr != nil {
		ord = callOrdinal(instr.Parent(), instr, short, func(c *ssa.CallCommon) string { return r.calleeShortName(nil, c) })
	}
	pos := token.NoPos
	if instr != nil {
		pos = instr.Pos()
	}
	if instr != nil {
		// ghost code anchored just before the call (it may establish what the precondition needs)
		av := map[string]Val{}
		for k, v := range env.vars {
			av["arg_"+k] = v
		}
		r.ghostAt(fr, st, reach, fmt.Sprintf("before:%s#%d", short, ord), instr, av)
		if r.fatal != "" {
			return r.freshTypedResults(sig, st), reach
		}
	}
	// 1. precondition
	for i, c := range sp.Requires {
		parts := env.evalBoolParts(c.E)
		if env.err != nil {
			r.fatal = fmt.Sprintf("%s requires %d (at call in %s): %v", sp.Key, i+1, funcKey(fr.fn), env.err)
			return r.freshTypedResults(sig, st), reach
		}
		for pi, g := range parts {
			name := fmt.Sprintf("%spre@%s#%d.%s", r.inlinePrefix(fr), short, ord, clauseName(c, i))
			if len(parts) > 1 {
				name += fmt.Sprintf(".%d", pi+1)
			}
			r.oblige(fr, "pre", "", name, reach, g, r.callProps(fr, c), pos, c.Text)
		}
	}
	// 2. frame: items that do not mention results designate pre-state objects
	pre := st.clone()
	rn := resultNames(sig, sp)
	rnames := map[string]bool{"result": true}
	for i, n := range rn {
		rnames[n] = true
		rnames[fmt.Sprintf("result%d", i)] = true
	}
	var preActs []func(*State)
	var postItems []Expr
	for _, a := range sp.Assigns {
		if mentionsNames(a, rnames) {
			postItems = append(postItems, a)
			continue
		}
		preActs = append(preActs, r.resolveTarget(env, a, sp))
		if env.err != nil {
			r.fatal = fmt.Sprintf("%s assigns (at call in %s): %v", sp.Key, funcKey(fr.fn), env.err)
			return r.freshTypedResults(sig, st), reach
		}
	}
	if sp.Havoc {
		r.havocAll(st, reach)
	}
	r.factGuard = reach
	for _, act := range preActs {
		act(st)
	}
	r.factGuard = Term{}
	// 3. results
	res := r.freshTypedResults(sig, st)
	penv := &Env{r: r, vars: map[string]Val{}, oldVars: env.vars, st: st, old: pre, pkg: env.pkg, specPkg: sp.Pkg}
	for k, v := range env.vars {
		penv.vars[k] = v
	}
	// captured variables of a function literal called under contract: ensures see their values after the call
	for name, l := range r.fvLocs {
		penv.vars[name] = r.loadTyped(st, l)
	}
	switch len(rn) {
	case 0:
	case 1:
		penv.vars[rn[0]] = res
		penv.vars["result"] = res
	default:
		for i, n := range rn {
			penv.vars[n] = res.Tup[i]
			penv.vars[fmt.Sprintf("result%d", i)] = res.Tup[i]
		}
	}
	// items that mention results designate post-state objects; applied in order
	for _, a := range postItems {
		act := r.resolveTarget(penv, a, sp)
		if penv.err != nil {
			r.fatal = fmt.Sprintf("%s assigns (at call in %s): %v", sp.Key, funcKey(fr.fn), penv.err)
			return res, reach
		}
		r.factGuard = reach
		act(st)
		r.factGuard = Term{}
	}
	// 4. postcondition
	for i, c := range sp.Ensures {
		g := penv.evalBool(c.E)
		if penv.err != nil {
			r.fatal = fmt.Sprintf("%s ensures %d (at call in %s): %v", sp.Key, i+1, funcKey(fr.fn), penv.err)
			return res, reach
		}
		r.ctx.Assert(Implies(reach, g))
	}
	if instr != nil {
		rv := map[string]Val{}
		for k, v := range env.vars {
			rv["arg_"+k] = v // the call's arguments, by the callee's parameter names
		}
		switch len(rn) {
		case 0:
		case 1:
			rv[rn[0]] = res
			rv["result"] = res
		default:
			for i, n := range rn {
				rv[n] = res.Tup[i]
				rv[fmt.Sprintf("result%d", i)] = res.Tup[i]
			}
		}
		r.ghostAt(fr, st, reach, fmt.Sprintf("call:%s#%d", short, ord), instr, rv)
	}
	return res, reach
}

func (r *Run) callProps(fr *Frame, c Clause) []string {
	// a precondition at a call site serves the properties of the function under verification
	return r.funcProps(fr)
}

// assignComps: components named by an assigns item (for loop write sets).
func (r *Run) assignComps(sp *FuncSpec, a Expr) ([]string, bool) {
	switch x := a.(type) {
	case *EIdent:
		if x.Name == "everything" {
			return nil, true
		}
		if _, ok := r.specs.Ghosts[x.Name]; ok {
			return []string{"ghost." + x.Name}, false
		}
	case *ECall:
		if id, ok := x.Fun.(*EIdent); ok {
			switch id.Name {
			case "elems":
				// element memory of bytes unless the slice type says otherwise: conservatively all known E.*
				var out []string
				for c := range r.compSorts {
					if strings.HasPrefix(c, "E.") {
						out = append(out, c)
					}
				}
				out = append(out, "E.uint8")
				r.elemComp(types.Typ[types.Uint8])
				return out, false
			case "comp":
				if s, ok := x.Args[0].(*EStr); ok {
					return []string{s.V}, false
				}
			case "allmaps":
				if cs := r.allMapsComps(r.specEnvPkg(sp), x); cs != nil {
					return cs, false
				}
				return nil, true
			case "allelems", "allboxes":
				if s, ok := x.Args[0].(*EStr); ok {
					if t := r.resolveType(r.specEnvPkg(sp), s.V); t != nil {
						if id.Name == "allelems" {
							c, _ := r.elemComp(t)
							return []string{c}, false
						}
						c, _ := r.boxComp(t)
						return []string{c}, false
					}
				}
				return nil, true
			}
		}
	case *ESel:
		// Type.field: exactly that component
		if id, ok := x.X.(*EIdent); ok {
			if p := r.specEnvPkg(sp); p != nil {
				if tn, ok := p.Scope().Lookup(id.Name).(*types.TypeName); ok {
					c := "F." + structName(tn.Type()) + "." + x.Sel
					if stt, ok := tn.Type().Underlying().(*types.Struct); ok {
						for i := 0; i < stt.NumFields(); i++ {
							if stt.Field(i).Name() == x.Sel {
								r.fieldComp(stt, structName(tn.Type()), i)
							}
						}
					}
					if gs, ok := r.specs.Ghosts[id.Name+"."+x.Sel]; ok {
						r.regComp(c, arraySort(SInt, gs))
					}
					return []string{c}, false
				}
			}
		}
		// x.field: every component ending in .<field> (registered, or of a struct type of the spec's package)
		var out []string
		suffix := "." + x.Sel
		for c := range r.compSorts {
			if strings.HasPrefix(c, "F.") && strings.HasSuffix(c, suffix) {
				out = append(out, c)
			}
		}
		if p := r.specEnvPkg(sp); p != nil {
			for _, name := range p.Scope().Names() {
				tn, ok := p.Scope().Lookup(name).(*types.TypeName)
				if !ok {
					continue
				}
				if stt, ok := tn.Type().Underlying().(*types.Struct); ok {
					for i := 0; i < stt.NumFields(); i++ {
						if stt.Field(i).Name() == x.Sel {
							if arr, isArr := stt.Field(i).Type().Underlying().(*types.Array); isArr {
								ec, _ := r.elemComp(arr.Elem())
								out = append(out, ec)
								continue
							}
							c, _ := r.fieldComp(stt, structName(tn.Type()), i)
							out = append(out, c)
						}
					}
				}
				if gs, ok := r.specs.Ghosts[name+"."+x.Sel]; ok {
					c := "F." + structName(tn.Type()) + "." + x.Sel
					r.regComp(c, arraySort(SInt, gs))
					out = append(out, c)
				}
			}
		}
		// make sure the component exists even if not touched yet: resolve through the type when possible
		if id, ok := x.X.(*EIdent); ok {
			if p := r.specEnvPkg(sp); p != nil {
				if o := p.Scope().Lookup(id.Name); o != nil {
					if _, isType := o.(*types.TypeName); isType {
						out = append(out, "F."+structName(o.Type())+"."+x.Sel)
					}
				}
			}
		}
		if len(out) == 0 {
			return nil, true
		}
		return out, false
	case *EUnary:
		if x.Op == "*" {
			var out []string
			for c := range r.compSorts {
				if strings.HasPrefix(c, "B.") {
					out = append(out, c)
				}
			}
			if len(out) == 0 {
				return nil, true
			}
			return out, false
		}
	case *EIndex:
		if id, ok := x.X.(*EIdent); ok {
			if _, ok := r.specs.Ghosts[id.Name]; ok {
				return []string{"ghost." + id.Name}, false
			}
		}
		var out []string
		for c := range r.compSorts {
			if strings.HasPrefix(c, "E.") {
				out = append(out, c)
			}
		}
		return out, len(out) == 0
	}
	return nil, true
}

// resolveTarget evaluates one assigns item in env (its state decides which object is meant) and returns
// the action that forgets it in a state.
func (r *Run) resolveTarget(env *Env, a Expr, sp *FuncSpec) func(st *State) {
	nop := func(st *State) {}
	switch x := a.(type) {
	case *EIdent:
		if x.Name == "everything" {
			return func(st *State) { r.havocAll(st, tTrue) }
		}
		if x.Name == "allocates" {
			return func(st *State) {
				old := r.heapGet(st, "$top")
				nt := r.ctx.Fresh("top", SInt)
				r.ctx.Assert(Ge(nt, old))
				r.heapSet(st, "$top", nt)
			}
		}
		if srt, ok := r.specs.Ghosts[x.Name]; ok {
			comp := "ghost." + x.Name
			r.regComp(comp, srt)
			return func(st *State) { r.heapSet(st, comp, r.ctx.Fresh("hv."+comp, srt)) }
		}
	case *ECall:
		if id, ok := x.Fun.(*EIdent); ok {
			switch id.Name {
			case "elems":
				v := env.eval(x.Args[0])
				t := env.term(v)
				if t.Sort != SSlice {
					env.fail("elems of non-slice")
					return nop
				}
				var et types.Type = types.Typ[types.Uint8]
				if v.Typ != nil {
					if s, ok := v.Typ.Underlying().(*types.Slice); ok {
						et = s.Elem()
					}
				}
				comp, srt := r.elemComp(et)
				return func(st *State) {
					m := r.heapGet(st, comp)
					// only positions [off, off+len) change
					row := r.ctx.Fresh("hv.row", arraySort(SInt, srt))
					oldRow := Select(m, slBase(t))
					r.assertFact(Term{fmt.Sprintf("(forall ((j Int)) (! (=> (or (< j %s) (>= j %s)) (= (select %s j) (select %s j))) :pattern ((select %s j))))",
						slOff(t).S, Add(slOff(t), slLen(t)).S, row.S, oldRow.S, row.S), SBool})
					if isInteger(et) {
						lo, hi := intRange(et)
						r.assertFact(Term{fmt.Sprintf("(forall ((j Int)) (! (and (<= %s (select %s j)) (<= (select %s j) %s)) :pattern ((select %s j))))",
							mkBig(lo).S, row.S, row.S, mkBig(hi).S, row.S), SBool})
					}
					r.heapSet(st, comp, r.ctx.Define("h."+comp, Store(m, slBase(t), row)))
				}
			case "allelems", "allboxes":
				if s, ok := x.Args[0].(*EStr); ok {
					if t := r.resolveType(r.specEnvPkg(sp), s.V); t != nil {
						var comp string
						if id.Name == "allelems" {
							comp, _ = r.elemComp(t)
						} else {
							comp, _ = r.boxComp(t)
						}
						return func(st *State) { r.heapSet(st, comp, r.ctx.Fresh("hv."+comp, r.compSort(comp))) }
					}
				}
				env.fail("%s: unknown type", id.Name)
				return nop
			case "allmaps":
				cs := r.allMapsComps(r.specEnvPkg(sp), x)
				if cs == nil {
					env.fail("allmaps: unknown types")
					return nop
				}
				return func(st *State) {
					for _, c := range cs {
						r.heapSet(st, c, r.ctx.Fresh("hv."+c, r.compSort(c)))
					}
				}
			case "comp":
				if s, ok := x.Args[0].(*EStr); ok {
					return func(st *State) {
						if srt, ok := r.compSorts[s.V]; ok {
							r.heapSet(st, s.V, r.ctx.Fresh("hv."+s.V, srt))
						}
					}
				}
			}
		}
	case *ESel:
		// Type.field: whole component
		if id, ok := x.X.(*EIdent); ok {
			if _, bound := env.vars[id.Name]; !bound {
				if p := r.specEnvPkg(sp); p != nil {
					if o := p.Scope().Lookup(id.Name); o != nil {
						if _, isType := o.(*types.TypeName); isType {
							comp := "F." + structName(o.Type()) + "." + x.Sel
							if stt, ok := o.Type().Underlying().(*types.Struct); ok {
								for i := 0; i < stt.NumFields(); i++ {
									if stt.Field(i).Name() == x.Sel {
										r.regComp(comp, arraySort(SInt, sortOf(stt.Field(i).Type())))
									}
								}
							}
							if gs, ok := r.specs.Ghosts[id.Name+"."+x.Sel]; ok {
								r.regComp(comp, arraySort(SInt, gs))
							}
							if srt, ok := r.compSorts[comp]; ok {
								return func(st *State) { r.heapSet(st, comp, r.ctx.Fresh("hv."+comp, srt)) }
							}
						}
					}
				}
			}
		}
		v := env.eval(x.X)
		l := r.fieldByName(env.state(), v, x.Sel)
		if l == nil {
			env.fail("assigns: no field %s", exprString(a))
			return nop
		}
		if l.Kind == LElem && l.Typ != nil {
			if _, isArr := l.Typ.Underlying().(*types.Array); isArr {
				// an array field: the whole row
				return func(st *State) {
					m := r.heapGet(st, l.Comp)
					r.heapSet(st, l.Comp, r.ctx.Define("h."+l.Comp, Store(m, l.Base, r.ctx.Fresh("hvrow", arraySort(SInt, l.Sort)))))
				}
			}
		}
		return func(st *State) { r.havocLoc(st, l) }
	case *EUnary:
		if x.Op == "*" {
			v := env.eval(x.X)
			l := r.derefLoc(v)
			if l == nil {
				env.fail("assigns: cannot dereference %s", exprString(x.X))
				return nop
			}
			return func(st *State) { r.havocLoc(st, l) }
		}
	case *EIndex:
		if id, ok := x.X.(*EIdent); ok {
			if srt, ok := r.specs.Ghosts[id.Name]; ok {
				comp := "ghost." + id.Name
				r.regComp(comp, srt)
				i := env.term(env.eval(x.I))
				return func(st *State) {
					r.heapSet(st, comp, Store(r.heapGet(st, comp), i, r.ctx.Fresh("hv."+comp, arrayValSort(srt))))
				}
			}
		}
		v := env.eval(x.X)
		t := env.term(v)
		if t.Sort == SSlice {
			var et types.Type = types.Typ[types.Uint8]
			if v.Typ != nil {
				if s, ok := v.Typ.Underlying().(*types.Slice); ok {
					et = s.Elem()
				}
			}
			comp, srt := r.elemComp(et)
			i := env.term(env.eval(x.I))
			l := &Loc{Kind: LElem, Comp: comp, Sort: srt, Base: slBase(t), Off: Add(slOff(t), i), Typ: et}
			return func(st *State) { r.havocLoc(st, l) }
		}
	}
	env.fail("unsupported assigns item %s", exprString(a))
	return nop
}

func mentionsNames(e Expr, names map[string]bool) bool {
	found := false
	walkExpr(e, func(x Expr) {
		if id, ok := x.(*EIdent); ok && names[id.Name] {
			found = true
		}
	})
	return found
}

func (r *Run) havocLoc(st *State, l *Loc) {
	var v Val
	if l.Typ != nil {
		v = r.freshTyped("hv", l.Typ, st)
	} else {
		v = termVal(r.ctx.Fresh("hv", l.Sort), nil)
	}
	r.store(st, l, v)
}

// ---------------------------------------------------------------- locks / monitors

func (r *Run) lockOp(fr *Frame, st *State, reach Term, kind string, args []Val, instr ssa.Instruction) {
	if len(args) == 0 || args[0].Kind != VLoc || args[0].Loc.Kind != LComp {
		return
	}
	l := args[0].Loc
	mon := r.monitorByComp(l.Comp)
	obj := l.Idx
	hc := "held" + strings.TrimPrefix(l.Comp, "F")
	r.regComp(hc, arraySort(SInt, SBool))
	held := r.heapGet(st, hc)
	isLock := kind == "lock" || kind == "rlock"
	kinds := map[string]bool{"unlock": true, "runlock": true}
	if isLock {
		kinds = map[string]bool{"lock": true, "rlock": true}
	}
	ord := lockOrdinal(instr.Parent(), instr, kinds, r.isLockCall)
	if isLock {
		r.safety(fr, "lock", reach, Not(Select(held, obj)), instr.Pos(), "Lock while already holding the mutex (self-deadlock)")
		r.heapSet(st, hc, Store(held, obj, tTrue))
		if mon != nil {
			r.monitorHavoc(st, mon, obj)
			env := r.monitorEnv(mon, st, obj)
			for _, c := range mon.Inv {
				g := env.evalBool(c.E)
				if env.err != nil {
					r.fatal = fmt.Sprintf("monitor %s.%s invariant: %v", mon.Struct, mon.Mutex, env.err)
					return
				}
				r.ctx.Assert(Implies(reach, g))
			}
		}
		if mon != nil {
			r.monGhost(mon, st, obj, mon.LockGhost)
		}
		r.ghostAt(fr, st, reach, fmt.Sprintf("lock#%d", ord), instr)
		return
	}
	r.ghostAt(fr, st, reach, fmt.Sprintf("unlock#%d", ord), instr)
	if mon != nil {
		r.monGhost(mon, st, obj, mon.UnlockGhost)
	}
	r.safety(fr, "lock", reach, Select(held, obj), instr.Pos(), "Unlock of a mutex that is not held")
	if mon != nil {
		env := r.monitorEnv(mon, st, obj)
		for i, c := range mon.Inv {
			g := env.evalBool(c.E)
			if env.err != nil {
				r.fatal = fmt.Sprintf("monitor %s.%s invariant: %v", mon.Struct, mon.Mutex, env.err)
				return
			}
			props := c.Props
			if len(props) == 0 {
				props = r.funcProps(fr)
			}
			r.oblige(fr, "mon", "", fmt.Sprintf("%smon@unlock#%d.%s", r.inlinePrefix(fr), ord, clauseName(c, i)), reach, g, props, instr.Pos(), c.Text)
		}
	}
	r.heapSet(st, hc, Store(r.heapGet(st, hc), obj, tFalse))
}

func (r *Run) monitorEnv(mon *Monitor, st *State, obj Term) *Env {
	var typ types.Type
	if t := r.monitorType(mon); t != nil {
		typ = types.NewPointer(t)
	}
	env := &Env{r: r, vars: map[string]Val{"self": termVal(obj, typ)}, oldVars: map[string]Val{}, st: st, old: st, pkg: r.pkgByShort(mon.Pkg), specPkg: mon.Pkg}
	return env
}

// monitorHavoc forgets the protected state of obj (what other threads may have done while the lock was free).
func (r *Run) monitorHavoc(st *State, mon *Monitor, obj Term) {
	t := r.monitorType(mon)
	if t == nil {
		return
	}
	self := termVal(obj, types.NewPointer(t))
	for _, f := range mon.Fields {
		switch {
		case strings.HasPrefix(f, "elems(") && strings.HasSuffix(f, ")"):
			fl := r.fieldByName(st, self, f[6:len(f)-1])
			if fl == nil {
				continue
			}
			sv := r.load(st, fl)
			if sl, ok := fl.Typ.Underlying().(*types.Slice); ok && sv.Kind == VTerm {
				comp, srt := r.elemComp(sl.Elem())
				m := r.heapGet(st, comp)
				r.heapSet(st, comp, Store(m, slBase(sv.T), r.ctx.Fresh("mon.row", arraySort(SInt, srt))))
			}
		case strings.Contains(f, "[") && strings.HasSuffix(f, "]"):
			// ghostArray[field]: one entry of a global ghost array, indexed by a field of the locked object
			k := strings.Index(f, "[")
			gname := f[:k]
			srt, ok := r.specs.Ghosts[gname]
			if !ok {
				r.warn("monitor: unknown ghost array %s", gname)
				continue
			}
			fl := r.fieldByName(st, self, f[k+1:len(f)-1])
			if fl == nil {
				continue
			}
			idx := r.mustTerm(r.load(st, fl), "monitor index")
			comp := "ghost." + gname
			r.regComp(comp, srt)
			r.heapSet(st, comp, Store(r.heapGet(st, comp), idx, r.ctx.Fresh("mon."+gname, arrayValSort(srt))))
		case strings.Contains(f, "."):
			// Type.field: whole component
			parts := strings.SplitN(f, ".", 2)
			p := r.pkgByShort(mon.Pkg)
			if p == nil {
				continue
			}
			o := p.Scope().Lookup(parts[0])
			if o == nil {
				continue
			}
			comp := "F." + structName(o.Type()) + "." + parts[1]
			if stt, ok := o.Type().Underlying().(*types.Struct); ok {
				for i := 0; i < stt.NumFields(); i++ {
					if stt.Field(i).Name() == parts[1] {
						r.regComp(comp, arraySort(SInt, sortOf(stt.Field(i).Type())))
					}
				}
			}
			if gs, ok := r.specs.Ghosts[f]; ok {
				r.regComp(comp, arraySort(SInt, gs))
			}
			if srt, ok := r.compSorts[comp]; ok {
				r.heapSet(st, comp, r.ctx.Fresh("mon."+comp, srt))
			}
		default:
			fl := r.fieldByName(st, self, f)
			if fl == nil {
				r.warn("monitor field %s.%s not found", mon.Struct, f)
				continue
			}
			r.havocLoc(st, fl)
		}
	}
}

// protectedAccess emits a lock@ obligation when a protected field is touched.
func (r *Run) protectedAccess(fr *Frame, st *State, reach Term, l *Loc, pos token.Pos, write bool) {
	if l.Kind != LComp || !r.claims("lockset") {
		return
	}
	for _, m := range r.specs.Monitors {
		prefix := "F." + m.Pkg + "." + m.Struct + "."
		if !strings.HasPrefix(l.Comp, prefix) {
			continue
		}
		f := strings.TrimPrefix(l.Comp, prefix)
		for _, pf := range m.Fields {
			if pf == f {
				hc := "held." + m.Pkg + "." + m.Struct + "." + m.Mutex
				r.regComp(hc, arraySort(SInt, SBool))
				what := "read"
				if write {
					what = "write"
				}
				r.safety(fr, "lockset", reach, Select(r.heapGet(st, hc), l.Idx), pos, fmt.Sprintf("%s of %s.%s without holding %s", what, m.Struct, f, m.Mutex))
			}
		}
	}
}

func (r *Run) claims(kind string) bool {
	if r.spec == nil {
		return false
	}
	for _, s := range r.spec.Safety {
		if s == kind {
			return true
		}
	}
	return false
}

// ghostAt runs ghost blocks anchored at the given point of the function that contains instr.
// anchorWildcard: "before:f#*" (or "call:f#*") names every call of f.
func anchorWildcard(pattern, anchor string) bool {
	if !strings.HasSuffix(pattern, "#*") {
		return false
	}
	i := strings.LastIndex(anchor, "#")
	return i >= 0 && anchor[:i] == pattern[:len(pattern)-2]
}

func (r *Run) ghostAt(fr *Frame, st *State, reach Term, anchor string, instr ssa.Instruction, extra ...map[string]Val) {
	sp := r.specFor(fr.fn)
	if sp == nil {
		return
	}
	for ai, ac := range sp.Asserts {
		if ac.Anchor != anchor && !anchorWildcard(ac.Anchor, anchor) {
			continue
		}
		r.noteAnchor(sp, ac.Anchor)
		env := r.baseEnv(fr, st)
		if instr != nil {
			env.pos = instr.Pos()
		}
		for _, m := range extra {
			for k, v := range m {
				env.vars[k] = v
			}
		}
		g := env.evalBool(ac.C.E)
		if env.err != nil {
			r.fatal = fmt.Sprintf("%s assert at %s: %v", funcKey(fr.fn), anchor, env.err)
			return
		}
		if ac.Assume {
			r.ctx.Assert(Implies(reach, g))
			r.trusted["assume at "+funcKey(fr.fn)+" "+anchor+": "+ac.C.Text] = true
			continue
		}
		props := ac.C.Props
		if len(props) == 0 {
			props = r.funcProps(fr)
		}
		pos := token.NoPos
		if instr != nil {
			pos = instr.Pos()
		}
		r.oblige(fr, "assert", "", fmt.Sprintf("%sassert@%s.%s", r.inlinePrefix(fr), anchor, clauseName(ac.C, ai)), reach, g, props, pos, ac.C.Text)
	}
	for _, gb := range sp.Ghost {
		if gb.Anchor != anchor && !anchorWildcard(gb.Anchor, anchor) {
			continue
		}
		r.noteAnchor(sp, gb.Anchor)
		env := r.baseEnv(fr, st)
		if instr != nil {
			env.pos = instr.Pos()
		}
		for _, m := range extra {
			for k, v := range m {
				env.vars[k] = v
			}
		}
		// simultaneous assignment: evaluate all right-hand sides first
		var vals []Val
		for _, ga := range gb.Assign {
			vals = append(vals, env.eval(ga.RHS))
		}
		for i, ga := range gb.Assign {
			if !r.ghostAssign(env, st, ga.LHS, vals[i]) {
				r.fatal = fmt.Sprintf("%s ghost block at %s: %v", funcKey(fr.fn), anchor, env.err)
				return
			}
		}
	}
}

func (r *Run) ghostLoc(env *Env, e Expr) *Loc {
	switch x := e.(type) {
	case *ESel:
		v := env.eval(x.X)
		l := r.fieldByName(env.st, v, x.Sel)
		if l == nil {
			env.fail("ghost assignment: no field %s", exprString(e))
		}
		return l
	case *EIndex:
		if id, ok := x.X.(*EIdent); ok {
			if srt, ok := r.specs.Ghosts[id.Name]; ok {
				comp := "ghost." + id.Name
				r.regComp(comp, srt)
				return &Loc{Kind: LComp, Comp: comp, Sort: arrayValSort(srt), Idx: env.term(env.eval(x.I))}
			}
		}
	case *EIdent:
		if srt, ok := r.specs.Ghosts[x.Name]; ok {
			comp := "ghost." + x.Name
			r.regComp(comp, srt)
			return &Loc{Kind: LGlobal, Comp: comp, Sort: srt}
		}
	}
	env.fail("unsupported ghost assignment target %s", exprString(e))
	return nil
}

// ---------------------------------------------------------------- builtins

func (r *Run) builtin(fr *Frame, st *State, reach Term, name string, cc *ssa.CallCommon, args []Val, instr ssa.Instruction) Val {
	intT := types.Typ[types.Int]
	pos := token.NoPos
	if instr != nil {
		pos = instr.Pos()
	}
	switch name {
	case "len", "cap":
		t := r.mustTerm(args[0], name)
		switch t.Sort {
		case SSlice:
			if name == "len" {
				return termVal(slLen(t), intT)
			}
			return termVal(slCap(t), intT)
		case SStr:
			return termVal(app(SInt, "str.len_", t), intT)
		case SInt:
			if m, ok := cc.Args[0].Type().Underlying().(*types.Map); ok {
				v := Select(r.heapGet(st, r.mapLenComp(m)), t)
				r.ctx.Assert(Ge(v, mkInt(0)))
				return termVal(v, intT)
			}
			if p, ok := cc.Args[0].Type().Underlying().(*types.Pointer); ok {
				if a, ok := p.Elem().Underlying().(*types.Array); ok {
					return termVal(mkInt(a.Len()), intT)
				}
			}
			// channels
			v := r.ctx.Fresh(name, SInt)
			r.ctx.Assert(Ge(v, mkInt(0)))
			return termVal(v, intT)
		}
		return r.freshTyped(name, intT, st)
	case "append":
		return r.appendOp(fr, st, reach, cc, args)
	case "copy":
		return r.copyOp(fr, st, reach, cc, args)
	case "delete":
		if m, ok := cc.Args[0].Type().Underlying().(*types.Map); ok {
			mt := r.mustTerm(args[0], "map")
			k := r.mustTerm(args[1], "key")
			hasc, _ := r.mapComps(m)
			lenc := r.mapLenComp(m)
			H := r.heapGet(st, hasc)
			L := r.heapGet(st, lenc)
			had := Select(Select(H, mt), k)
			r.heapSet(st, lenc, r.ctx.Define("h.maplen", Store(L, mt, Sub(Select(L, mt), Ite(had, mkInt(1), mkInt(0))))))
			r.heapSet(st, hasc, r.ctx.Define("h.maphas", Store(H, mt, Store(Select(H, mt), k, tFalse))))
		}
		return Val{Kind: VNone}
	case "recover":
		// panics are obligations, not control flow: in the executions considered recover() returns nil
		return termVal(nilIface, cc.Signature().Results().At(0).Type())
	case "ssa:deferstack":
		return termVal(mkInt(0), cc.Signature().Results().At(0).Type())
	case "print", "println", "close", "ssa:wrapnilchk":
		if name == "ssa:wrapnilchk" {
			return args[0]
		}
		return Val{Kind: VNone}
	case "min", "max":
		a := r.mustTerm(args[0], name)
		for _, x := range args[1:] {
			b := r.mustTerm(x, name)
			if name == "min" {
				a = Ite(Le(a, b), a, b)
			} else {
				a = Ite(Ge(a, b), a, b)
			}
		}
		return termVal(a, cc.Signature().Results().At(0).Type())
	}
	_ = pos
	r.warn("builtin %s unmodelled", name)
	sig := cc.Signature()
	if sig.Results().Len() == 1 {
		return r.freshTyped(name, sig.Results().At(0).Type(), st)
	}
	return Val{Kind: VNone}
}

// appendOp models append(s, t...) with both outcomes (in place / reallocation).
func (r *Run) appendOp(fr *Frame, st *State, reach Term, cc *ssa.CallCommon, args []Val) Val {
	st0 := cc.Args[0].Type()
	sl, ok := st0.Underlying().(*types.Slice)
	if !ok {
		return r.freshTyped("append", st0, st)
	}
	s := r.mustTerm(args[0], "append dst")
	comp, srt := r.elemComp(sl.Elem())
	rowSort := arraySort(SInt, srt)
	M := r.heapGet(st, comp)
	var n2 Term
	var srcAt func(j Term) Term // element j of the appended part (pre-state)
	t2 := r.mustTerm(args[1], "append src")
	if t2.Sort == SStr {
		n2 = app(SInt, "str.len_", t2)
		srcAt = func(j Term) Term { return app(SInt, "str.at_", t2, j) }
	} else {
		n2 = slLen(t2)
		srow := Select(M, slBase(t2))
		srcAt = func(j Term) Term { return Select(srow, Add(slOff(t2), j)) }
	}
	n1 := slLen(s)
	newLen := r.ctx.Define("aplen", Add(n1, n2))
	fits := r.ctx.Define("apfits", Le(newLen, slCap(s)))
	ref := r.freshRef(st, "append")
	newCap := r.ctx.Fresh("apcap", SInt)
	r.ctx.Assert(Ge(newCap, newLen))
	resBase := Ite(fits, slBase(s), ref)
	resOff := Ite(fits, slOff(s), mkInt(0))
	resCap := Ite(fits, slCap(s), newCap)
	// nil-ness: append(nil, <empty>) stays nil
	res := r.ctx.Define("ap", mkSlice(resBase, resOff, newLen, resCap))
	oldRow := Select(M, slBase(s))
	row := r.ctx.Fresh("aprow", rowSort)
	j := Term{"j", SInt}
	inPlace := Ite(And(Le(Add(slOff(s), n1), j), Lt(j, Add(slOff(s), newLen))), srcAt(Sub(j, Add(slOff(s), n1))), Select(oldRow, j))
	moved := Ite(Lt(j, n1), Select(oldRow, Add(slOff(s), j)), srcAt(Sub(j, n1)))
	body := Implies(And(Le(mkInt(0), j)), Eq(Select(row, j), Ite(fits, inPlace, Ite(Lt(j, newLen), moved, zeroOf(sl.Elem())))))
	r.ctx.Assert(Term{fmt.Sprintf("(forall ((j Int)) (! %s :pattern ((select %s j))))", body.S, row.S), SBool})
	// if nothing is appended to a nil slice the result is nil
	final := Ite(And(Eq(slBase(s), mkInt(0)), Eq(n2, mkInt(0))), nilSlice, res)
	r.heapSet(st, comp, r.ctx.Define("h."+comp, Store(M, resBase, row)))
	return termVal(r.ctx.Define("apres", final), st0)
}

func (r *Run) copyOp(fr *Frame, st *State, reach Term, cc *ssa.CallCommon, args []Val) Val {
	intT := types.Typ[types.Int]
	sl, ok := cc.Args[0].Type().Underlying().(*types.Slice)
	if !ok {
		return r.freshTyped("copy", intT, st)
	}
	d := r.mustTerm(args[0], "copy dst")
	comp, srt := r.elemComp(sl.Elem())
	M := r.heapGet(st, comp)
	var n2 Term
	var srcAt func(j Term) Term
	t2 := r.mustTerm(args[1], "copy src")
	if t2.Sort == SStr {
		n2 = app(SInt, "str.len_", t2)
		srcAt = func(j Term) Term { return app(SInt, "str.at_", t2, j) }
	} else {
		n2 = slLen(t2)
		srow := Select(M, slBase(t2))
		srcAt = func(j Term) Term { return Select(srow, Add(slOff(t2), j)) }
	}
	n := r.ctx.Define("cpn", Ite(Le(slLen(d), n2), slLen(d), n2))
	oldRow := Select(M, slBase(d))
	row := r.ctx.Fresh("cprow", arraySort(SInt, srt))
	j := Term{"j", SInt}
	body := Eq(Select(row, j), Ite(And(Le(slOff(d), j), Lt(j, Add(slOff(d), n))), srcAt(Sub(j, slOff(d))), Select(oldRow, j)))
	r.ctx.Assert(Implies(reach, Term{fmt.Sprintf("(forall ((j Int)) (! %s :pattern ((select %s j))))", body.S, row.S), SBool}))
	r.heapSet(st, comp, r.ctx.Define("h."+comp, Store(M, slBase(d), row)))
	return termVal(n, intT)
}

// spawnObligations: precondition of an escaping closure at the point where it is handed over.
func (r *Run) spawnObligations(fr *Frame, st *State, reach Term, clo Val, instr ssa.Instruction) {
	sp := r.specFor(clo.Fn)
	if sp == nil || sp.Inline || len(sp.Requires) == 0 {
		return
	}
	env := &Env{r: r, vars: map[string]Val{}, oldVars: map[string]Val{}, st: st, old: st, pkg: r.specEnvPkg(sp), specPkg: sp.Pkg}
	for i, fv := range clo.Fn.FreeVars {
		if i < len(clo.Bind) {
			if l := r.derefLoc(clo.Bind[i]); l != nil {
				env.vars[fv.Name()] = r.loadTyped(st, l)
			}
		}
	}
	pos := token.NoPos
	if instr != nil {
		pos = instr.Pos()
	}
	for i, c := range sp.Requires {
		if c.Label == "thread" {
			// facts about the thread that will run the literal (it holds no lock, owns no token): true of a new
			// thread by construction, not a matter for the thread that hands the literal over
			continue
		}
		parts := env.evalBoolParts(c.E)
		if env.err != nil {
			r.fatal = fmt.Sprintf("%s requires %d (at hand-over in %s): %v", sp.Key, i+1, funcKey(fr.fn), env.err)
			return
		}
		for pi, g := range parts {
			name := fmt.Sprintf("%sspawn@%s.%s", r.inlinePrefix(fr), clo.Fn.Name(), clauseName(c, i))
			if len(parts) > 1 {
				name += fmt.Sprintf(".%d", pi+1)
			}
			r.oblige(fr, "pre", "", name, reach, g, r.funcProps(fr), pos, c.Text)
		}
	}
}

// monGhost runs monitor-level ghost code (simultaneous assignment) with self bound to the locked object.
func (r *Run) monGhost(mon *Monitor, st *State, obj Term, gas []GhostAssign) {
	if len(gas) == 0 {
		return
	}
	env := r.monitorEnv(mon, st, obj)
	var vals []Val
	for _, ga := range gas {
		vals = append(vals, env.eval(ga.RHS))
	}
	for i, ga := range gas {
		if !r.ghostAssign(env, st, ga.LHS, vals[i]) {
			r.fatal = fmt.Sprintf("monitor %s.%s ghost code: %v", mon.Struct, mon.Mutex, env.err)
			return
		}
	}
}

// ghostAssign: lhs = val, where lhs is a ghost location or one entry x.g[k] of an array-valued ghost field.
func (r *Run) ghostAssign(env *Env, st *State, lhs Expr, val Val) bool {
	if ix, ok := lhs.(*EIndex); ok {
		if _, isSel := ix.X.(*ESel); isSel {
			l := r.ghostLoc(env, ix.X)
			if env.err != nil || l == nil {
				return false
			}
			if strings.HasPrefix(l.Sort, "(Array ") {
				cur := r.load(st, l)
				k := env.term(env.eval(ix.I))
				if env.err != nil {
					return false
				}
				r.store(st, l, termVal(Store(cur.T, k, r.mustTerm(val, "ghost value")), nil))
				return true
			}
		}
	}
	l := r.ghostLoc(env, lhs)
	if env.err != nil || l == nil {
		return false
	}
	r.store(st, l, val)
	return true
}

// siblingClosure resolves a call through a captured variable that holds a function literal of the parent.
func (r *Run) siblingClosure(fr *Frame, v ssa.Value) (*ssa.Function, []Val) {
	u, ok := v.(*ssa.UnOp)
	if !ok || u.Op != token.MUL {
		return nil, nil
	}
	fv, ok := u.X.(*ssa.FreeVar)
	if !ok {
		return nil, nil
	}
	fn := fv.Parent()
	if fn == nil || fn.Parent() == nil {
		return nil, nil
	}
	parent := fn.Parent()
	mc := findMakeClosure(parent, fn)
	if mc == nil {
		return nil, nil
	}
	// the parent's variable this free variable stands for
	var holder *ssa.Alloc
	for i, f := range fn.FreeVars {
		if f == fv && i < len(mc.Bindings) {
			holder, _ = mc.Bindings[i].(*ssa.Alloc)
		}
	}
	if holder == nil {
		return nil, nil
	}
	// it must only ever hold one function literal
	var target *ssa.MakeClosure
	for _, ref := range *holder.Referrers() {
		if s, ok := ref.(*ssa.Store); ok && s.Addr == holder {
			m, ok := s.Val.(*ssa.MakeClosure)
			if !ok || (target != nil && target.Fn != m.Fn) {
				return nil, nil
			}
			target = m
		}
	}
	if target == nil {
		return nil, nil
	}
	callee := target.Fn.(*ssa.Function)
	// map the callee's captured variables to ours: same parent variable => same box
	var binds []Val
	for _, tb := range target.Bindings {
		found := false
		for i, mb := range mc.Bindings {
			if mb == tb && i < len(fn.FreeVars) {
				if x, ok := fr.free[fn.FreeVars[i]]; ok {
					binds = append(binds, x)
					found = true
				}
				break
			}
		}
		if !found {
			return nil, nil
		}
	}
	return callee, binds
}

// allMapsComps: the three components (membership, values, lengths) of every map of the key and element types named by
// allmaps("K", "V")
func (r *Run) allMapsComps(pkg *types.Package, x *ECall) []string {
	if len(x.Args) != 2 {
		return nil
	}
	ks, ok1 := x.Args[0].(*EStr)
	vs, ok2 := x.Args[1].(*EStr)
	if !ok1 || !ok2 {
		return nil
	}
	kt, vt := r.resolveType(pkg, ks.V), r.resolveType(pkg, vs.V)
	if kt == nil || vt == nil {
		return nil
	}
	m := types.NewMap(kt, vt)
	h, v := r.mapComps(m)
	return []string{h, v, r.mapLenComp(m)}
}

// noteAnchor records that an anchored clause or ghost block of a contract was reached by the generator.
func (r *Run) noteAnchor(sp *FuncSpec, anchor string) {
	if r.firedAnchors == nil {
		r.firedAnchors = map[string]bool{}
	}
	r.firedAnchors[sp.Key+" "+anchor] = true
}

// unfiredAnchors: anchors written in the contract of the function under verification (and of the literals it
// inlines) that no program point matched - a misspelt or renumbered anchor must not pass silently.
func (r *Run) unfiredAnchors() []string {
	var out []string
	seen := map[string]bool{}
	check := func(sp *FuncSpec) {
		if sp == nil {
			return
		}
		for _, ac := range sp.Asserts {
			k := sp.Key + " " + ac.Anchor
			if !r.firedAnchors[k] && !seen[k] {
				seen[k] = true
				out = append(out, k)
			}
		}
		for _, gb := range sp.Ghost {
			k := sp.Key + " " + gb.Anchor
			if !r.firedAnchors[k] && !seen[k] {
				seen[k] = true
				out = append(out, k)
			}
		}
	}
	check(r.spec)
	return out
}

// assertFact asserts a fact about a fresh symbol created while a call's effects are applied; it is guarded by the
// reach term of the call so that the path filter can drop it for obligations elsewhere (the guard changes nothing
// logically: the symbol is unconstrained off that path anyway).
func (r *Run) assertFact(t Term) {
	if r.factGuard.S != "" && !r.factGuard.IsTrue() {
		r.ctx.Assert(Implies(r.factGuard, t))
		return
	}
	r.ctx.Assert(t)
}

func (r *Run) onInlineStack(fr *Frame, fn *ssa.Function) bool {
	for f := fr; f != nil; f = f.parent {
		if f.fn == fn {
			return true
		}
	}
	return false
}

func hasLoops(fn *ssa.Function) bool {
	return len(analyzeCFG(fn).loops) > 0
}
