package main

import (
	"go/token"
	"fmt"
	"regexp"
	"go/types"
	"math/big"
	"sort"
	"strings"

	"golang.org/x/tools/go/ssa"
)

// ---------------------------------------------------------------- values

type ValKind int

const (
	VTerm ValKind = iota
	VLoc
	VTuple
	VFunc
	VNone
)

// Val is an engine-level value: an SMT term, a statically known location, a tuple or a function value.
type Val struct {
	Kind ValKind
	T    Term
	Loc  *Loc
	Tup  []Val
	Fn   *ssa.Function
	Bind []Val
	Typ  types.Type
	Src  string // heap component the value was loaded from (for func-typed fields)
}

type LocKind int

const (
	LCell LocKind = iota
	LComp         // heap component (Array Int S) at Idx
	LElem         // element memory E.<T>[Base][Off]
	LGlobal       // 0-ary component
	LConst        // immutable global: a program constant
)

type Loc struct {
	Kind  LocKind
	Cell  cellKey
	Comp  string
	Sort  string // value sort stored at this location
	Idx   Term
	Base  Term
	Off   Term
	Typ   types.Type // pointee type
	// Path is the struct path for nested inline structs (informational)
}

type cellKey struct {
	frame int
	alloc *ssa.Alloc
}

func termVal(t Term, typ types.Type) Val { return Val{Kind: VTerm, T: t, Typ: typ} }
func locVal(l *Loc, typ types.Type) Val  { return Val{Kind: VLoc, Loc: l, Typ: typ} }

// ---------------------------------------------------------------- sorts of Go types

func isUnsigned(t types.Type) bool {
	b, ok := t.Underlying().(*types.Basic)
	return ok && b.Info()&types.IsUnsigned != 0
}

func isInteger(t types.Type) bool {
	b, ok := t.Underlying().(*types.Basic)
	return ok && b.Info()&types.IsInteger != 0
}

func intBits(t types.Type) uint {
	b, ok := t.Underlying().(*types.Basic)
	if !ok {
		return 64
	}
	switch b.Kind() {
	case types.Int8, types.Uint8:
		return 8
	case types.Int16, types.Uint16:
		return 16
	case types.Int32, types.Uint32:
		return 32
	}
	return 64
}

func intRange(t types.Type) (lo, hi *big.Int) {
	bits := intBits(t)
	if isUnsigned(t) {
		return big.NewInt(0), new(big.Int).Sub(pow2(bits), big.NewInt(1))
	}
	h := pow2(bits - 1)
	return new(big.Int).Neg(h), new(big.Int).Sub(h, big.NewInt(1))
}

func sortOf(t types.Type) string {
	switch u := t.Underlying().(type) {
	case *types.Basic:
		switch {
		case u.Info()&types.IsBoolean != 0:
			return SBool
		case u.Info()&types.IsInteger != 0:
			return SInt
		case u.Info()&types.IsString != 0:
			return SStr
		case u.Info()&types.IsFloat != 0:
			return SReal
		case u.Kind() == types.UnsafePointer:
			return SInt
		case u.Kind() == types.UntypedNil:
			return SInt
		}
		return SInt
	case *types.Slice:
		return SSlice
	case *types.Interface:
		return SIface
	case *types.Pointer, *types.Map, *types.Chan, *types.Signature:
		return SInt
	case *types.Struct, *types.Array:
		// struct / array values are referenced through a Ref to their storage
		return SInt
	case *types.Tuple:
		return SInt
	}
	return SInt
}

// typeName gives a stable short name of a type for component names.
func typeName(t types.Type) string {
	s := types.TypeString(t, func(p *types.Package) string { return shortPkg(p.Path()) })
	// byte and rune are aliases: one component per underlying machine type
	s = byteRe.ReplaceAllString(s, "uint8")
	s = runeRe.ReplaceAllString(s, "int32")
	return s
}

var byteRe = regexp.MustCompile(`\bbyte\b`)
var runeRe = regexp.MustCompile(`\brune\b`)

func underName(t types.Type) string {
	// component names for boxes / element memories are keyed by underlying type, because Go allows
	// conversions between pointer types with identical underlying base types.
	switch u := t.(type) {
	case *types.Named:
		switch u.Underlying().(type) {
		case *types.Struct, *types.Interface:
			return typeName(t)
		}
		return typeName(u.Underlying())
	}
	return typeName(t)
}

func zeroOf(t types.Type) Term {
	switch sortOf(t) {
	case SBool:
		return tFalse
	case SInt:
		return mkInt(0)
	case SSlice:
		return nilSlice
	case SIface:
		return nilIface
	case SStr:
		return Term{"str.empty_", SStr}
	case SReal:
		return Term{"0.0", SReal}
	}
	return mkInt(0)
}

// ---------------------------------------------------------------- state

// epoch gives a default value to heap components that a state's map does not mention.
type epoch struct {
	id      int
	parents []epochParent // empty => base epoch: components are free constants H<id>.<comp>
	cache   map[string]Term
}

type epochParent struct {
	cond Term
	st   *State
}

type DeferEntry struct {
	guard Term
	instr *ssa.Defer
	frame *Frame
	fn    Val
	args  []Val
}

type State struct {
	cells  map[cellKey]Val
	heap   map[string]Term
	ep     *epoch
	defers []DeferEntry
}

func (s *State) clone() *State {
	n := &State{cells: make(map[cellKey]Val, len(s.cells)), heap: make(map[string]Term, len(s.heap)), ep: s.ep}
	for k, v := range s.cells {
		n.cells[k] = v
	}
	for k, v := range s.heap {
		n.heap[k] = v
	}
	n.defers = append([]DeferEntry(nil), s.defers...)
	return n
}

// ---------------------------------------------------------------- the run (one function under verification)

type Obligation struct {
	Name   string
	Kind   string // post, pre, inv-entry, inv-step, dec, safe, mon, lock, frame, own, cover
	Sub    string // safety kind: index, slice, nil, div, assert, make, panic, ovf
	Func   string
	Props  []string
	Pos    string
	Text   string
	mark   int
	hyps   []Term
	goal   Term
	ctx    *SMTCtx
	Cover  bool // a cover obligation: expected SAT (reachability)
	Result *SolveResult
	Query  string
	exclTerm          *Term
	splitPos          []string
	splitReach        []Term
	splitConds        []Term // branch conditions defined before this obligation (for case splitting on timeout)
	knownExpectedFail *KnownFinding
	replay            *replayInfo
}

type Frame struct {
	id     int
	autoInline bool // expanded in place because it has no contract (safety of its body is not claimed)
	fn     *ssa.Function
	regs   map[ssa.Value]Val
	parent *Frame
	free   map[*ssa.FreeVar]Val
	params []Val
	spec   *FuncSpec
	// ordinals
	nLock, nUnlock int
	callOrd        map[string]int
	safeOrd        map[string]int
	allocByPos     map[string][]*ssa.Alloc
	inlineDepth    int
	entry          *State
	rets           []retPoint
	lockOrdinals   map[ssa.Instruction]int
	run            *Run
	curLoop        *loopInfo // set while a loop's clauses are evaluated
}

type retPoint struct {
	reach Term
	st    *State
	vals  []Val
	pos   token.Pos
}

type Run struct {
	prog   *Program
	specs  *Specs
	ctx    *SMTCtx
	fn     *ssa.Function
	spec   *FuncSpec
	obls   []*Obligation
	nframe int
	nepoch int
	warns  map[string]int
	trusted map[string]bool // trusted specs / assumptions actually used
	typeTags map[string]int
	strLits  map[string]int
	entry  *State
	top    *Frame
	discover bool
	arithAssumed bool
	compSorts map[string]string
	fatal  string
	knownExcl map[string]Term
	errGlobals []Term
	abTags     map[string]int
	ifaceSpec *FuncSpec
	conds     []Term
	condMark  []int
	condPos   []string
	condReach []Term
	firedAnchors map[string]bool
	factGuard Term
	topReplay *replayInfo
	nextAutoInline bool
	nameCount map[string]int
	localBoxes []localBox
	escaping  map[string]bool
	fvLocs    map[string]*Loc
	coverSites map[string]bool
	ifaceAssigns []Expr
}

func (r *Run) warn(f string, a ...interface{}) {
	m := fmt.Sprintf(f, a...)
	r.warns[m]++
}

func (r *Run) newEpoch() *epoch {
	r.nepoch++
	return &epoch{id: r.nepoch, cache: map[string]Term{}}
}

func (r *Run) compSort(comp string) string {
	s, ok := r.compSorts[comp]
	if !ok {
		panic("unknown component sort: " + comp)
	}
	return s
}

func (r *Run) regComp(comp, sort string) {
	if old, ok := r.compSorts[comp]; ok && old != sort {
		panic(fmt.Sprintf("component %s registered with two sorts %s / %s", comp, old, sort))
	}
	r.compSorts[comp] = sort
}

// heapGet returns the current value of a heap component.
func (r *Run) heapGet(st *State, comp string) Term {
	if t, ok := st.heap[comp]; ok {
		return t
	}
	return r.epochGet(st.ep, comp)
}

func (r *Run) epochGet(ep *epoch, comp string) Term {
	if t, ok := ep.cache[comp]; ok {
		return t
	}
	sort := r.compSort(comp)
	var t Term
	if len(ep.parents) == 0 {
		name := fmt.Sprintf("H%d.%s", ep.id, sanitize(comp))
		r.ctx.DeclareOnce(name, fmt.Sprintf("(declare-const %s %s)", name, sort))
		t = Term{name, sort}
		if comp == "$top" && ep.id > 1 {
			// allocation watermark only grows
		}
	} else {
		// merged epoch: ite over parents
		vals := make([]Term, len(ep.parents))
		same := true
		for i, p := range ep.parents {
			vals[i] = r.heapGet(p.st, comp)
			if vals[i].S != vals[0].S {
				same = false
			}
		}
		if same {
			t = vals[0]
		} else {
			t = vals[len(vals)-1]
			for i := len(vals) - 2; i >= 0; i-- {
				t = Ite(ep.parents[i].cond, vals[i], t)
			}
			t = r.ctx.Define("m."+comp, t)
		}
	}
	ep.cache[comp] = t
	return t
}

func (r *Run) heapSet(st *State, comp string, t Term) {
	st.heap[comp] = t
}

// havocAll forgets every heap component (used for calls without a contract).
func (r *Run) havocAll(st *State, reach Term) {
	// the boxes of this function's own address-taken / captured locals are not reachable by code that was not
	// handed their address: they keep their values (r.escaping lists the ones passed to the current call)
	type kept struct {
		comp string
		ref  Term
		val  Term
	}
	var boxes []kept
	for _, b := range r.localBoxes {
		if r.escaping[b.ref.S] {
			continue
		}
		if _, ok := r.compSorts[b.comp]; !ok {
			continue
		}
		boxes = append(boxes, kept{b.comp, b.ref, Select(r.heapGet(st, b.comp), b.ref)})
	}
	defer func() {
		for _, b := range boxes {
			st.heap[b.comp] = r.ctx.Define("keep."+b.comp, Store(r.heapGet(st, b.comp), b.ref, b.val))
		}
	}()
	oldTop := r.heapGet(st, "$top")
	held := map[string]Term{}
	for k := range r.compSorts {
		if strings.HasPrefix(k, "held.") || strings.HasPrefix(k, "G.const.") || r.isLocalGhost(k) {
			held[k] = r.heapGet(st, k)
		}
	}
	st.heap = map[string]Term{}
	st.ep = r.newEpoch()
	newTop := r.heapGet(st, "$top")
	r.ctx.Assert(Ge(newTop, oldTop))
	for k, v := range held {
		st.heap[k] = v
	}
}

// mergeStates merges predecessor out-states under their edge conditions.
func (r *Run) mergeStates(conds []Term, sts []*State) *State {
	if len(sts) == 1 {
		return sts[0].clone()
	}
	out := &State{cells: map[cellKey]Val{}, heap: map[string]Term{}}
	// cells
	keys := map[cellKey]bool{}
	for _, s := range sts {
		for k := range s.cells {
			keys[k] = true
		}
	}
	for k := range keys {
		vals := make([]Val, len(sts))
		ok := true
		for i, s := range sts {
			v, has := s.cells[k]
			if !has {
				ok = false
				break
			}
			vals[i] = v
		}
		if !ok {
			continue // cell not defined on all paths: dead here
		}
		out.cells[k] = r.mergeVals(conds, vals, "c."+k.alloc.Comment)
	}
	// heap
	sameEp := true
	for _, s := range sts {
		if s.ep != sts[0].ep {
			sameEp = false
		}
	}
	if sameEp {
		out.ep = sts[0].ep
	} else {
		ep := r.newEpoch()
		for i, s := range sts {
			// a snapshot: the caller may go on updating (or overwrite in place) the state object it passed in
			ep.parents = append(ep.parents, epochParent{conds[i], s.clone()})
		}
		out.ep = ep
	}
	hkeys := map[string]bool{}
	for _, s := range sts {
		for k := range s.heap {
			hkeys[k] = true
		}
	}
	hk := make([]string, 0, len(hkeys))
	for k := range hkeys {
		hk = append(hk, k)
	}
	sort.Strings(hk)
	for _, k := range hk {
		vals := make([]Term, len(sts))
		same := true
		for i, s := range sts {
			vals[i] = r.heapGet(s, k)
			if vals[i].S != vals[0].S {
				same = false
			}
		}
		if same {
			if sameEp {
				out.heap[k] = vals[0]
			} else {
				out.heap[k] = vals[0]
			}
			continue
		}
		t := vals[len(vals)-1]
		for i := len(vals) - 2; i >= 0; i-- {
			t = Ite(conds[i], vals[i], t)
		}
		out.heap[k] = r.ctx.Define("m."+k, t)
	}
	// defers: union in order of first appearance; guards merged
	out.defers = r.mergeDefers(conds, sts)
	return out
}

func (r *Run) mergeDefers(conds []Term, sts []*State) []DeferEntry {
	same := true
	for _, s := range sts {
		if len(s.defers) != len(sts[0].defers) {
			same = false
			break
		}
		for i := range s.defers {
			if s.defers[i].instr != sts[0].defers[i].instr || s.defers[i].guard.S != sts[0].defers[i].guard.S || s.defers[i].frame != sts[0].defers[i].frame {
				same = false
			}
		}
	}
	if same {
		return append([]DeferEntry(nil), sts[0].defers...)
	}
	type key struct {
		i *ssa.Defer
		f *Frame
	}
	var order []key
	seen := map[key]bool{}
	for _, s := range sts {
		for _, d := range s.defers {
			k := key{d.instr, d.frame}
			if !seen[k] {
				seen[k] = true
				order = append(order, k)
			}
		}
	}
	sort.SliceStable(order, func(a, b int) bool {
		if order[a].f.id != order[b].f.id {
			return order[a].f.id < order[b].f.id
		}
		return order[a].i.Pos() < order[b].i.Pos()
	})
	var out []DeferEntry
	for _, k := range order {
		var ent DeferEntry
		guards := make([]Term, len(sts))
		for i, s := range sts {
			guards[i] = tFalse
			for _, d := range s.defers {
				if d.instr == k.i && d.frame == k.f {
					guards[i] = d.guard
					ent = d
				}
			}
		}
		g := guards[len(guards)-1]
		for i := len(guards) - 2; i >= 0; i-- {
			g = Ite(conds[i], guards[i], g)
		}
		ent.guard = r.ctx.Define("dg", g)
		out = append(out, ent)
	}
	return out
}

func (r *Run) mergeVals(conds []Term, vals []Val, hint string) Val {
	first := vals[0]
	allSame := true
	for _, v := range vals[1:] {
		if !sameVal(first, v) {
			allSame = false
			break
		}
	}
	if allSame {
		return first
	}
	// differing: all must be terms (or convertible)
	ts := make([]Term, len(vals))
	for i, v := range vals {
		t, ok := r.asTerm(v)
		if !ok {
			r.warn("merge of non-term values for %s", hint)
			return termVal(r.ctx.Fresh("merge."+hint, sortOf(first.Typ)), first.Typ)
		}
		ts[i] = t
	}
	t := ts[len(ts)-1]
	for i := len(ts) - 2; i >= 0; i-- {
		if ts[i].Sort != t.Sort {
			r.warn("merge of differently sorted values for %s", hint)
			return termVal(r.ctx.Fresh("merge."+hint, t.Sort), first.Typ)
		}
		t = Ite(conds[i], ts[i], t)
	}
	return termVal(r.ctx.Define("m."+hint, t), first.Typ)
}

func sameVal(a, b Val) bool {
	if a.Kind != b.Kind {
		return false
	}
	switch a.Kind {
	case VTerm:
		return a.T.S == b.T.S
	case VLoc:
		return sameLoc(a.Loc, b.Loc)
	case VFunc:
		if a.Fn != b.Fn || len(a.Bind) != len(b.Bind) {
			return false
		}
		for i := range a.Bind {
			if !sameVal(a.Bind[i], b.Bind[i]) {
				return false
			}
		}
		return true
	case VTuple:
		if len(a.Tup) != len(b.Tup) {
			return false
		}
		for i := range a.Tup {
			if !sameVal(a.Tup[i], b.Tup[i]) {
				return false
			}
		}
		return true
	case VNone:
		return true
	}
	return false
}

func sameLoc(a, b *Loc) bool {
	if a.Kind != b.Kind {
		return false
	}
	switch a.Kind {
	case LCell:
		return a.Cell == b.Cell
	case LComp:
		return a.Comp == b.Comp && a.Idx.S == b.Idx.S
	case LElem:
		return a.Comp == b.Comp && a.Base.S == b.Base.S && a.Off.S == b.Off.S
	case LGlobal, LConst:
		return a.Comp == b.Comp
	}
	return false
}

// asTerm converts a value to an SMT term where possible.
func (r *Run) asTerm(v Val) (Term, bool) {
	switch v.Kind {
	case VTerm:
		return v.T, true
	case VLoc:
		l := v.Loc
		switch l.Kind {
		case LComp:
			if strings.HasPrefix(l.Comp, "B.") {
				return l.Idx, true // a box pointer is its Ref
			}
			fn := "addr." + sanitize(l.Comp)
			r.ctx.DeclareOnce(fn, fmt.Sprintf("(declare-fun %s (Int) Int)", fn))
			a := app(SInt, fn, l.Idx)
			// the address of a field of an existing object is not nil
			r.ctx.DeclareOnce(a.S+"!pos", "(assert (> "+a.S+" 0))")
			return a, true
		case LElem:
			fn := "eaddr." + sanitize(l.Comp)
			r.ctx.DeclareOnce(fn, fmt.Sprintf("(declare-fun %s (Int Int) Int)", fn))
			return app(SInt, fn, l.Base, l.Off), true
		case LGlobal, LConst:
			name := "gaddr." + sanitize(l.Comp)
			r.ctx.DeclareOnce(name, fmt.Sprintf("(declare-const %s Int)", name))
			return Term{name, SInt}, true
		case LCell:
			name := fmt.Sprintf("caddr.%d.%s", l.Cell.frame, sanitize(l.Cell.alloc.Name()))
			r.ctx.DeclareOnce(name, fmt.Sprintf("(declare-const %s Int)", name))
			return Term{name, SInt}, true
		}
	case VFunc:
		name := "fn." + sanitize(v.Fn.String())
		if len(v.Bind) > 0 {
			// closures are distinct objects; an opaque fresh non-nil ref is enough
			c := r.ctx.Fresh("closure", SInt)
			r.ctx.Assert(Gt(c, mkInt(0)))
			return c, true
		}
		r.ctx.DeclareOnce(name, fmt.Sprintf("(declare-const %s Int)", name))
		r.ctx.DeclareOnce(name+"!pos", fmt.Sprintf("(assert (> %s 0))", name))
		return Term{name, SInt}, true
	}
	return Term{}, false
}

func (r *Run) mustTerm(v Val, what string) Term {
	t, ok := r.asTerm(v)
	if !ok {
		r.warn("no term for %s", what)
		return r.ctx.Fresh("opaque", sortOf(v.Typ))
	}
	return t
}

// ---------------------------------------------------------------- components for Go locations

func (r *Run) fieldComp(st *types.Struct, named string, idx int) (string, string) {
	f := st.Field(idx)
	comp := "F." + named + "." + f.Name()
	srt := arraySort(SInt, sortOf(f.Type()))
	r.regComp(comp, srt)
	return comp, sortOf(f.Type())
}

func (r *Run) boxComp(t types.Type) (string, string) {
	comp := "B." + underName(t)
	r.regComp(comp, arraySort(SInt, sortOf(t)))
	return comp, sortOf(t)
}

func (r *Run) elemComp(t types.Type) (string, string) {
	comp := "E." + underName(t)
	r.regComp(comp, arraySort(SInt, arraySort(SInt, sortOf(t))))
	return comp, sortOf(t)
}

func structName(t types.Type) string {
	if n, ok := t.(*types.Named); ok {
		return shortPkg(pkgPathOf(n)) + "." + n.Obj().Name()
	}
	if a, ok := t.(*types.Alias); ok {
		return structName(types.Unalias(a))
	}
	return sanitize(typeName(t))
}

func pkgPathOf(n *types.Named) string {
	if n.Obj().Pkg() == nil {
		return ""
	}
	return n.Obj().Pkg().Path()
}

// load reads a location in a state.
func (r *Run) load(st *State, l *Loc) Val {
	switch l.Kind {
	case LCell:
		v, ok := st.cells[l.Cell]
		if !ok {
			// uninitialised cell: zero value
			return termVal(zeroOf(l.Typ), l.Typ)
		}
		return v
	case LComp:
		return termVal(Select(r.heapGet(st, l.Comp), l.Idx), l.Typ)
	case LElem:
		return termVal(Select(Select(r.heapGet(st, l.Comp), l.Base), l.Off), l.Typ)
	case LGlobal:
		return termVal(r.heapGet(st, l.Comp), l.Typ)
	case LConst:
		return termVal(Term{l.Comp, l.Sort}, l.Typ)
	}
	panic("load")
}

func (r *Run) store(st *State, l *Loc, v Val) {
	switch l.Kind {
	case LCell:
		st.cells[l.Cell] = v
		return
	}
	t := r.mustTerm(v, "stored value")
	if t.Sort != l.Sort {
		t = r.coerce(t, l.Sort)
	}
	switch l.Kind {
	case LComp:
		r.heapSet(st, l.Comp, r.ctx.Define("h."+l.Comp, Store(r.heapGet(st, l.Comp), l.Idx, t)))
	case LElem:
		m := r.heapGet(st, l.Comp)
		row := Store(Select(m, l.Base), l.Off, t)
		r.heapSet(st, l.Comp, r.ctx.Define("h."+l.Comp, Store(m, l.Base, row)))
	case LGlobal:
		r.heapSet(st, l.Comp, t)
	case LConst:
		r.warn("store to a global classified immutable: %s", l.Comp)
	}
}

func (r *Run) coerce(t Term, sort string) Term {
	if t.Sort == sort {
		return t
	}
	r.warn("sort coercion %s -> %s", t.Sort, sort)
	return r.ctx.Fresh("coerce", sort)
}

// wellTyped returns the typing invariant of a value of Go type typ (ranges, slice header sanity).
func (r *Run) wellTyped(t Term, typ types.Type, st *State) Term {
	switch u := typ.Underlying().(type) {
	case *types.Basic:
		if u.Info()&types.IsInteger != 0 {
			lo, hi := intRange(typ)
			return And(Le(mkBig(lo), t), Le(t, mkBig(hi)))
		}
		if u.Info()&types.IsString != 0 {
			return Ge(app(SInt, "str.len_", t), mkInt(0))
		}
	case *types.Slice:
		cs := []Term{Le(mkInt(0), slOff(t)), Le(mkInt(0), slLen(t)), Le(slLen(t), slCap(t)),
			Ge(slBase(t), mkInt(0)),
			Le(slCap(t), Term{"9223372036854775807", SInt}), // a capacity is an int
			Implies(Eq(slBase(t), mkInt(0)), And(Eq(slCap(t), mkInt(0)), Eq(slOff(t), mkInt(0))))}
		if st != nil {
			cs = append(cs, Le(slBase(t), r.heapGet(st, "$top")))
		}
		return And(cs...)
	case *types.Pointer, *types.Map, *types.Chan:
		cs := []Term{Ge(t, mkInt(0))}
		if st != nil {
			cs = append(cs, Le(t, r.heapGet(st, "$top")))
		}
		return And(cs...)
	case *types.Interface:
		return And(Ge(ifTag(t), mkInt(0)), Implies(Eq(ifTag(t), mkInt(0)), Eq(ifVal(t), mkInt(0))))
	case *types.Struct:
		// a struct value is a reference to storage that exists (a later allocation is a different object)
		if st != nil {
			return Le(t, r.heapGet(st, "$top"))
		}
	}
	return tTrue
}

func (r *Run) freshTyped(hint string, typ types.Type, st *State) Val {
	if tup, ok := typ.(*types.Tuple); ok {
		var vs []Val
		for i := 0; i < tup.Len(); i++ {
			vs = append(vs, r.freshTyped(fmt.Sprintf("%s.%d", hint, i), tup.At(i).Type(), st))
		}
		return Val{Kind: VTuple, Tup: vs, Typ: typ}
	}
	t := r.ctx.Fresh(hint, sortOf(typ))
	r.ctx.Assert(r.wellTyped(t, typ, st))
	return termVal(t, typ)
}

// freshRef allocates a new object reference.
func (r *Run) freshRef(st *State, hint string) Term {
	ref := r.ctx.Fresh("ref."+hint, SInt)
	top := r.heapGet(st, "$top")
	r.ctx.Assert(Gt(ref, top))
	r.heapSet(st, "$top", ref)
	return ref
}

func (r *Run) typeTag(t types.Type) Term {
	k := typeName(t)
	id, ok := r.typeTags[k]
	if !ok {
		id = len(r.typeTags) + 1
		r.typeTags[k] = id
	}
	return mkInt(int64(id))
}

func (r *Run) tagByName(k string) Term {
	id, ok := r.typeTags[k]
	if !ok {
		id = len(r.typeTags) + 1
		r.typeTags[k] = id
	}
	return mkInt(int64(id))
}

func (r *Run) strLit(s string) Term {
	if s == "" {
		return Term{"str.empty_", SStr}
	}
	id, ok := r.strLits[s]
	if !ok {
		id = len(r.strLits) + 1
		r.strLits[s] = id
		name := fmt.Sprintf("strlit!%d", id)
		r.ctx.DeclareOnce(name, fmt.Sprintf("(declare-const %s Str)", name))
		t := Term{name, SStr}
		r.ctx.Assert(Eq(app(SInt, "str.len_", t), mkInt(int64(len(s)))))
		r.ctx.Assert(Eq(app(SInt, "str.litid_", t), mkInt(int64(id))))
		if len(s) <= 24 {
			for i := 0; i < len(s); i++ {
				r.ctx.Assert(Eq(app(SInt, "str.at_", t, mkInt(int64(i))), mkInt(int64(s[i]))))
			}
		}
	}
	return Term{fmt.Sprintf("strlit!%d", id), SStr}
}

// isLocalGhost: the component is a thread-local ghost field (F.<pkg>.<Struct>.<field> with "Struct.field" declared
// "ghost local"): a callee's unspecified effects do not include it.
func (r *Run) isLocalGhost(comp string) bool {
	if !strings.HasPrefix(comp, "F.") {
		return false
	}
	parts := strings.Split(comp, ".")
	if len(parts) < 3 {
		return false
	}
	return r.specs.GhostLocal[parts[len(parts)-2]+"."+parts[len(parts)-1]]
}

type localBox struct {
	comp string
	ref  Term
}
